"""Fail-closed `ast` translator for the uncertainty formulas of measured.Measurement.
Produces, for add, sub, mul, div, pow, the radicand (argument of math.sqrt / operand of .root(2)) as
a Coq `rexpr` term (Model/Measure.v) over x, sigma_x, y, sigma_y.  Anything outside the whitelisted
shapes raises Untranslatable: the caller then reports the tie as broken instead of guessing."""
import ast, os

SRC = os.path.join(os.environ.get("VERIF_REPO", "/repo"), "src/measured/__init__.py")

class Untranslatable(Exception):
    pass

VARS = {"self.measurand.magnitude": "(RVar VX)", "self.uncertainty.magnitude": "(RVar VSX)",
        "other.measurand.magnitude": "(RVar VY)", "other.uncertainty.magnitude": "(RVar VSY)",
        "self.uncertainty": "(RVar VSX)", "other.uncertainty": "(RVar VSY)"}
FUN2 = {"_add": "RAdd", "_sub": "RSub", "_mul": "RMul", "_div": "RDiv"}
BIN = {ast.Add: "RAdd", ast.Sub: "RSub", ast.Mult: "RMul", ast.Div: "RDiv"}

def cz(n):
    return f"({n})" if n < 0 else str(n)

class Tr:
    def __init__(self, env):
        self.env = dict(env)      # local name -> Coq term or ("int", symbolic)
    def tr(self, n):
        src = ast.unparse(n)
        if src in self.env and isinstance(self.env[src], str):
            return self.env[src]
        if src in self.env and isinstance(self.env[src], tuple):
            return f"(RConst {self.env[src][1]})"
        if src in VARS:
            return VARS[src]
        if isinstance(n, ast.Constant) and isinstance(n.value, int) and not isinstance(n.value, bool):
            return f"(RConst {cz(n.value)})"
        if isinstance(n, ast.Call) and isinstance(n.func, ast.Name) and n.func.id in FUN2 and len(n.args) == 2 and not n.keywords:
            return f"({FUN2[n.func.id]} {self.tr(n.args[0])} {self.tr(n.args[1])})"
        if isinstance(n, ast.Call) and isinstance(n.func, ast.Name) and n.func.id == "_pow" and len(n.args) == 2:
            return f"(RPow {self.tr(n.args[0])} {self.zexp(n.args[1])})"
        if isinstance(n, ast.BinOp) and type(n.op) in BIN:
            return f"({BIN[type(n.op)]} {self.tr(n.left)} {self.tr(n.right)})"
        if isinstance(n, ast.BinOp) and isinstance(n.op, ast.Pow):
            return f"(RPow {self.tr(n.left)} {self.zexp(n.right)})"
        raise Untranslatable(f"expression outside the subset: {src}")
    def zexp(self, n):
        src = ast.unparse(n)
        if isinstance(n, ast.Constant) and isinstance(n.value, int):
            return cz(n.value)
        if src in self.env and isinstance(self.env[src], tuple):
            return self.env[src][1]
        if isinstance(n, ast.BinOp) and isinstance(n.op, ast.Sub) and isinstance(n.right, ast.Constant) and ast.unparse(n.left) in self.env:
            return f"({self.env[ast.unparse(n.left)][1]} - {n.right.value})"
        raise Untranslatable(f"exponent outside the subset: {src}")

def sqrt_arg(n):
    """radicand of math.sqrt(e) or (e).root(2)"""
    if isinstance(n, ast.Call) and ast.unparse(n.func) == "math.sqrt" and len(n.args) == 1:
        return n.args[0]
    if isinstance(n, ast.Call) and isinstance(n.func, ast.Attribute) and n.func.attr == "root" and len(n.args) == 1 \
            and isinstance(n.args[0], ast.Constant) and n.args[0].value == 2:
        return n.func.value
    raise Untranslatable(f"not a square root: {ast.unparse(n)}")

def find_assign(fn, name):
    vals = [st.value for st in ast.walk(fn) if isinstance(st, ast.Assign) and len(st.targets) == 1 and ast.unparse(st.targets[0]) == name]
    if len(vals) != 1:
        raise Untranslatable(f"{fn.name}: expected exactly one assignment to {name}, found {len(vals)}")
    return vals[0]

def straightline(fn, allowed_ifs, allowed_ifexps=0):
    """the function body may contain only the coercion `if`s we know, assignments, returns, docstrings/comments"""
    n_if = sum(isinstance(st, ast.If) for st in ast.walk(fn))
    if n_if > allowed_ifs:
        raise Untranslatable(f"{fn.name}: {n_if} if-statements (expected at most {allowed_ifs}): control flow outside the subset")
    if sum(isinstance(st, ast.IfExp) for st in ast.walk(fn)) > allowed_ifexps:
        raise Untranslatable(f"{fn.name}: IfExp outside the subset")
    for st in ast.walk(fn):
        if isinstance(st, (ast.For, ast.While, ast.Try, ast.With, ast.Lambda)):
            raise Untranslatable(f"{fn.name}: {type(st).__name__} outside the subset")

def translate(path=SRC):
    tree = ast.parse(open(path).read())
    cls = [c for c in tree.body if isinstance(c, ast.ClassDef) and c.name == "Measurement"]
    if len(cls) != 1: raise Untranslatable("class Measurement not found")
    fns = {f.name: f for f in cls[0].body if isinstance(f, ast.FunctionDef)}
    out = {}
    # __add__ / __sub__
    for name, key, mop in (("__add__", "add", "self.measurand + other.measurand"), ("__sub__", "sub", "self.measurand - other.measurand")):
        f = fns[name]; straightline(f, 2)
        if ast.unparse(find_assign(f, "measurand")) != mop:
            raise Untranslatable(f"{name}: measurand is {ast.unparse(find_assign(f, 'measurand'))}")
        out[key] = Tr({}).tr(sqrt_arg(find_assign(f, "uncertainty")))
    # _join_uncertainties(this_sensitivity, other, other_sensitivity)
    j = fns["_join_uncertainties"]; straightline(j, 0)
    params = [a.arg for a in j.args.args]
    if params != ["self", "this_sensitivity", "other", "other_sensitivity"]:
        raise Untranslatable(f"_join_uncertainties parameters {params}")
    rets = [st for st in ast.walk(j) if isinstance(st, ast.Return)]
    if len(rets) != 1: raise Untranslatable("_join_uncertainties: expected one return")
    jbody = sqrt_arg(rets[0].value)
    for name, key, mop in (("__mul__", "mul", "self.measurand * other.measurand"), ("__truediv__", "div", "self.measurand / other.measurand")):
        f = fns[name]; straightline(f, 2)
        if ast.unparse(find_assign(f, "measurand")) != mop:
            raise Untranslatable(f"{name}: measurand is {ast.unparse(find_assign(f, 'measurand'))}")
        call = find_assign(f, "uncertainty")
        if not (isinstance(call, ast.Call) and ast.unparse(call.func) == "self._join_uncertainties" and len(call.args) == 3
                and ast.unparse(call.args[1]) == "other"):
            raise Untranslatable(f"{name}: uncertainty is {ast.unparse(call)}")
        # measurand.magnitude inside the arguments is the magnitude of the result measurand
        res = "(RMul (RVar VX) (RVar VY))" if key == "mul" else "(RDiv (RVar VX) (RVar VY))"
        targ = Tr({"measurand.magnitude": res})
        this_s, other_s = targ.tr(call.args[0]), targ.tr(call.args[2])
        out[key] = Tr({"this_sensitivity": this_s, "other_sensitivity": other_s}).tr(jbody)
    # __pow__
    f = fns["__pow__"]; straightline(f, 2, allowed_ifexps=1)     # the one conditional expression allowed is the slope (checked below)
    if ast.unparse(find_assign(f, "measurand")) != "self.measurand ** exponent":
        raise Untranslatable("__pow__: measurand is " + ast.unparse(find_assign(f, "measurand")))
    zero = [st for st in f.body if isinstance(st, ast.If) and ast.unparse(st.test) == "exponent == 0"]
    if len(zero) != 1 or ast.unparse(zero[0].body[0]) != "return Measurement(measurand, 0)":
        raise Untranslatable("__pow__: the exponent == 0 case is not `return Measurement(measurand, 0)`")
    # slope = 1 if exponent == 1 else _pow(x, exponent - 1): the first branch is x**0 written out (a Decimal zero refuses 0**0);
    # in the model x**0 is 1 for every x (powerRZ), so the slope is the translated second branch for every exponent
    env = {"exponent": ("int", "n")}
    try:
        slope = find_assign(f, "slope")
    except Untranslatable:
        slope = None
    if slope is not None:
        if not (isinstance(slope, ast.IfExp) and ast.unparse(slope.test) == "exponent == 1" and ast.unparse(slope.body) == "1"
                and ast.unparse(slope.orelse) == "_pow(self.measurand.magnitude, exponent - 1)"):
            raise Untranslatable("__pow__: slope is " + ast.unparse(slope))
        env["slope"] = Tr({"exponent": ("int", "n")}).tr(slope.orelse)
    out["pow"] = Tr(env).tr(sqrt_arg(find_assign(f, "uncertainty")))
    # `exponent` used as a number (not as an exponent) appears as a Name: map it
    return out

def tr_pow_fix(term):
    return term

def coq(out):
    lines = ["From Coq Require Import ZArith List.", "From Measured Require Import Model.Measure.", "Local Open Scope Z_scope.", ""]
    for k in ("add", "sub", "mul", "div"):
        lines.append(f"Definition gen_{k} : rexpr := {out[k]}.")
    lines.append(f"Definition gen_pow (n : Z) : rexpr := {out['pow']}.")
    lines += ["",
              "Lemma gen_add_is_model : gen_add = radicand MAdd.  Proof. reflexivity. Qed.",
              "Lemma gen_sub_is_model : gen_sub = radicand MSub.  Proof. reflexivity. Qed.",
              "Lemma gen_mul_is_model : gen_mul = radicand MMul.  Proof. reflexivity. Qed.",
              "Lemma gen_div_is_model : gen_div = radicand MDiv.  Proof. reflexivity. Qed.",
              "Lemma gen_pow_is_model : forall n, gen_pow n = rad_pow n.  Proof. reflexivity. Qed.", ""]
    return "\n".join(lines)

if __name__ == "__main__":
    o = translate(); print(coq(o))


# ---------------------------------------------------------------- levels (C18)
LVARS = {"base": "(LVar LB)", "prefix.quantify()": "(LVar LP)", "power_ratio": "(LVar LK)", "self.magnitude": "(LVar LL)",
         "reference": "(LVar LR)"}

class LTr:
    def __init__(self, env): self.env = dict(env)
    def tr(self, n):
        src = ast.unparse(n)
        if src in self.env: return self.env[src]
        if src in LVARS: return LVARS[src]
        if isinstance(n, ast.Constant) and isinstance(n.value, int) and not isinstance(n.value, bool):
            return f"(LConst {cz(n.value)})"
        if isinstance(n, ast.Call) and isinstance(n.func, ast.Name) and n.func.id == "_mul" and len(n.args) == 2:
            return f"(LMul {self.tr(n.args[0])} {self.tr(n.args[1])})"
        if isinstance(n, ast.Call) and isinstance(n.func, ast.Name) and n.func.id == "_div" and len(n.args) == 2:
            return f"(LDiv {self.tr(n.args[0])} {self.tr(n.args[1])})"
        if isinstance(n, ast.Call) and isinstance(n.func, ast.Name) and n.func.id == "_pow" and len(n.args) == 2:
            return f"(LPow {self.tr(n.args[0])} {self.tr(n.args[1])})"
        if isinstance(n, ast.Call) and ast.unparse(n.func) == "math.log" and len(n.args) == 2:
            return f"(LLog {self.tr(n.args[0])} {self.tr(n.args[1])})"
        if isinstance(n, ast.BinOp) and isinstance(n.op, ast.Mult):
            return f"(LMul {self.tr(n.left)} {self.tr(n.right)})"
        if isinstance(n, ast.BinOp) and isinstance(n.op, ast.Div):
            return f"(LDiv {self.tr(n.left)} {self.tr(n.right)})"
        raise Untranslatable(f"level expression outside the subset: {src}")

def expect_assign(fn, name, text):
    got = ast.unparse(find_assign(fn, name))
    if got != text:
        raise Untranslatable(f"{fn.name}: {name} = {got} (expected {text})")

def translate_level(path=SRC):
    tree = ast.parse(open(path).read())
    classes = {c.name: c for c in tree.body if isinstance(c, ast.ClassDef)}
    lev = {f.name: f for f in classes["LogarithmicUnit"].body if isinstance(f, ast.FunctionDef)}["level"]
    qua = {f.name: f for f in classes["Level"].body if isinstance(f, ast.FunctionDef)}["quantify"]
    for f in (lev, qua): straightline(f, 0)
    # LogarithmicUnit.level
    expect_assign(lev, "base", "self.logarithm.base"); expect_assign(lev, "prefix", "self.logarithm.prefix")
    expect_assign(lev, "power_ratio", "self.power_ratio")
    expect_assign(lev, "ratio", "quantity.in_unit(self.reference.unit) / self.reference")
    t = LTr({"ratio.magnitude": "(LDiv (LVar LQ) (LVar LR))"})
    inv = t.tr(find_assign(lev, "inverted"))
    mag = LTr({"inverted": inv}).tr(find_assign(lev, "magnitude"))
    rets = [st for st in ast.walk(lev) if isinstance(st, ast.Return)]
    if len(rets) != 1 or ast.unparse(rets[0].value) != "Level(magnitude, self)":
        raise Untranslatable("LogarithmicUnit.level does not return Level(magnitude, self)")
    # Level.quantify
    expect_assign(qua, "base", "self.unit.logarithm.base"); expect_assign(qua, "prefix", "self.unit.logarithm.prefix")
    expect_assign(qua, "power_ratio", "self.unit.power_ratio"); expect_assign(qua, "reference", "self.unit.reference")
    ex = LTr({}).tr(find_assign(qua, "exponent"))
    qm = LTr({"exponent": ex}).tr(find_assign(qua, "magnitude"))
    rets = [st for st in ast.walk(qua) if isinstance(st, ast.Return)]
    if len(rets) != 1: raise Untranslatable("Level.quantify: expected one return")
    q = LTr({"magnitude": qm}).tr(rets[0].value)
    # power_ratio: 2 on ROOT_POWER_DIMENSIONS else 1
    pr = {f.name: f for f in classes["LogarithmicUnit"].body if isinstance(f, ast.FunctionDef)}["power_ratio"]
    body = [st for st in pr.body if not (isinstance(st, ast.Expr) and isinstance(st.value, ast.Constant))]
    if [ast.unparse(st) for st in body] != ["if self.reference.unit.dimension in ROOT_POWER_DIMENSIONS:\n    return 2", "return 1"]:
        raise Untranslatable("power_ratio is not `2 if the reference dimension is a root-power dimension else 1`: " + repr([ast.unparse(st) for st in body]))
    return {"level": mag, "quantify": q}

def coq_level(out):
    return "\n".join(["From Coq Require Import Reals ZArith.", "From Measured Require Import Model.LevelModel.", "",
                      f"Definition gen_level : lexpr := {out['level']}.", f"Definition gen_quantify : lexpr := {out['quantify']}.", "",
                      "Lemma gen_level_is_model : gen_level = level_expr.  Proof. reflexivity. Qed.",
                      "Lemma gen_quantify_is_model : gen_quantify = quantify_expr.  Proof. reflexivity. Qed.", ""])
