"""C17 — parsing is total: any text yields a Unit/Quantity or ParseError/KeyError."""
import sys, os
sys.path.insert(0, os.path.dirname(os.path.abspath(__file__)))
from common import *
import c13 as C13
from c16 import gen_strings

ALLOWED = ("ParseError", "KeyError")

def main():
    c = Check("C17")
    c.static_theorems()
    rng = c.rng
    quick = c.tier == "quick"
    T = C13.parse_worker({"cases": [], "tables": True})["tables"]
    symbols = [s for s, u in T["usym"]]; psyms = [s for s, p in T["psym"]]; names = [n for n, u in T["uname"]]
    # ---------------- structured inputs (term lists) for the kernel-checked comparison with the model
    lexable = lambda s: s and all(ch == "1" or (ch.isalpha() and (ch.isascii() or ch in "Å" or "Α" <= ch <= "ω" or "ₐ" <= ch <= "ₜ")) or ch in ".°-()☉" for ch in s)
    pool = [s for s in T.get("non_units", []) if lexable(s)] + [s for s in symbols if lexable(s)] + [p + s for p in psyms for s in rng.sample(symbols, 6) if lexable(p + s)] + [n for n in names if lexable(n)] + ["zz", "qx", "kzz", "Mq", "foo", "mmm", "kk"]
    structured = []
    for _ in range(600 if quick else 8000):
        k = rng.choice([1, 1, 2, 3]); num = [(rng.choice(pool), rng.choice([1, 1, 2, -1, 3, -2, 0, 12])) for _ in range(k)]
        den = [(rng.choice(pool), rng.choice([1, 2, -1])) for _ in range(rng.choice([1, 2]))] if rng.random() < 0.35 else None
        def txt(ts, sep): return sep.join(s + (f"^{e}" if e != 1 else "") for s, e in ts)
        sep = rng.choice(["*", "⋅", " "])
        text = txt(num, sep) + ("/" + txt(den, sep) if den else "")
        structured.append((num, den, text))
    # ---------------- free-form inputs
    free = gen_strings(rng, 700 if quick else 12000)
    free += [s + sfx for s in ("m", "km", "5 m", "kB", "KiB km", "MiB⁻¹⋅μs") for sfx in ("^" + "9" * 50, "^" + "9" * 400, "^" + "9" * 5000, "^-" + "9" * 400, "⁹" * 400, "⁻" + "⁹" * 5000)]
    free += ["9" * n + " m" for n in (20, 400, 4400)] + ["1e400 m", "-1e400 m", "1e-400 m", "9" * 400 + ".5 m", "." + "9" * 400 + " m", "5e" + "9" * 30 + " m", "inf m", "nan m", "+5 m", "- 5 m", "5 - m"]
    free += ["KiB km^" + "9" * 400, "KiB/km^" + "9" * 400, "km/KiB" + "⁹" * 400, "MiB⁻" + "⁹" * 320 + "⋅μs", "km GHz^" + "9" * 400, "5 KiB km^" + "9" * 400, "kB^" + "9" * 400, "mA kB^" + "9" * 330]
    N308 = "3" + "0" * 307
    free += [f"KiB⋅km^{N308}/KiB⋅km^{N308}", f"2 KiB⋅km^{N308}/KiB⋅km^{N308}", f"KiB km^{N308}", f"MiB⋅ms^{N308}/MiB⋅ms^{N308}", f"kB^{N308}/kB^{N308}"]
    for u in ("m", "km/s", "KiB", "Hz", "kg m^2"):      # the same amount in both numeric spellings, in both orders
        for a, b in (("7", "7.0"), ("12.0", "12"), ("0", "-0.0"), ("1000", "1e3"), ("5", "5e0"), ("3.0", "3")):
            free += [f"{a} {u}", f"{b} {u}"]
    free += [x for s_ in T.get("non_units", []) for x in (s_, f"5 {s_}", f"m/{s_}", f"{s_}²")]
    free += ["nan", "NaN", "-nan", "+NAN", " nan ", "inf", "-inf", "Infinity", "12", "1.5", "-7", "1e3", "9" * 4400, "9" * 4301, "nan m", "inf m", "1_000 m", "1_0", "0x10 m", "٣ m"]    # numbers on their own, Python-only numeral spellings
    # long runs of letters that are themselves prefix symbols (each one could be split off as a prefix of the rest), and dimensionless ratios of
    # one unit under two prefixes with an integer magnitude (nothing may fold the prefix into the number the user wrote)
    free += ["m" * 1500, "k" * 1500 + "g^2", "5 " + "m" * 1500, "μ" * 3000, "da" * 800, "m" * 40, "Mk" * 700 + "m", "5 " + "G" * 2500 + "Hz"]
    free += ["5 m/km", "5 mm/m", "5 cm^2/m^2", "3 μs/s", "5 B/KiB", "7 km/m", "5 kg/g", "1e999 m^200/km^200", "5 Mm/km", "12 ms/ks", "5 m/m", "5 km/km", "0 mm/m", "-4 mg/kg"]
    free += ["kB^1" + "0" * 308, "kB^-1" + "0" * 308, "5 MB^1" + "0" * 308, "KiB km^1" + "0" * 308, "GB^9" + "0" * 307 + "/s"]      # float-exponent prefixes raised beyond the float range
    free += ["km zeebles", "Mm kg $", "5 mA zeebles", "mA/zeebles", "kHz⋅zz", "μs ms ns qq", "5 km/", "km ^2", "kHz MHz GHz THz zz"]     # a prefixed unit resolved before the input is rejected
    alphabet = "mskgKAΩμ°.-()15 ^*/⋅²⁻¹eE+\t\n" + "".join(chr(rng.randrange(32, 0x3000)) for _ in range(40)) + "\u0000퟿\U0001F600"
    for _ in range(500 if quick else 10000):
        free.append("".join(rng.choice(alphabet) for _ in range(rng.choice([1, 2, 3, 5, 8, 13, 40]))))
    cases = []
    for num, den, text in structured: cases.append({"op": "parse_unit", "s": text, "snap": True})
    nstruct = len(cases)
    for s in free:
        cases.append({"op": "parse_unit", "s": s, "snap": True}); cases.append({"op": "parse_quantity", "s": s, "snap": True})
    r = C13.parse_worker({"cases": cases})["results"]
    # the extreme exponents once more, each as the first thing a fresh process parses (in the long run above an earlier text may already have left
    # behind whatever makes the second parse of a later one differ from its first)
    ext = ["kB^1" + "0" * 308, "kB^-1" + "0" * 308, "5 MB^1" + "0" * 308, "GB^9" + "0" * 307 + "/s", "m^" + "9" * 5000, "KiB km^3" + "0" * 307]
    for s_ in ext:
        xc = [{"op": "parse_unit", "s": s_, "snap": True}, {"op": "parse_quantity", "s": "5 " + s_ if not s_[0].isdigit() else s_, "snap": True}]
        cases_x = xc
        rx = C13.parse_worker({"cases": cases_x})["results"]
        cases += cases_x; r += rx
    # ---------------- the property on the implementation
    stats = {"accepted": 0, "ParseError": 0, "KeyError": 0}
    for cs, x in zip(cases, r):
        c.count([cs["op"], cs["s"][:200], len(cs["s"])], nontrivial=True)
        repl = {"call": "Unit.parse" if cs["op"] == "parse_unit" else "Quantity.parse", "text": cs["s"] if len(cs["s"]) < 300 else cs["s"][:60] + f"...({len(cs['s'])} characters)", "outcome": {k: v for k, v in x.items() if k in ("err", "msg", "m", "again_same", "registry_unchanged")}}
        if "err" in x:
            if x["err"] not in ALLOWED:
                c.violation(f"escapes:{x['err']}", f"{repl['call']} raised {x['err']}: {x.get('msg')}", repl)
            else: stats[x["err"]] += 1
            if x.get("registry_unchanged") is False:
                c.violation("registry-changed-on-reject", f"a rejected input changed the registered names / symbols", repl)
            if x.get("again_differs"):
                c.violation("not-deterministic", f"the text was rejected ({x['err']}) and, parsed a second time, {x['again_differs']}", dict(repl, second_time=x["again_differs"]))
        else:
            stats["accepted"] += 1
            if not x.get("again_same"):
                c.violation("not-deterministic", "parsing the same text twice gave different results", repl)
            if x.get("registry_unchanged") is False:
                c.violation("registry-changed-on-accept", "parsing changed the registered names / symbols", repl)
            if cs["op"] == "parse_quantity":
                lit = cs["s"].strip().split()[0] if cs["s"].strip() else ""
                k = x["m"][0]
                if k not in ("int", "float"):
                    c.violation("magnitude-type", f"magnitude of kind {k}", repl)
                if len(x["m"]) == 2 and "nan" in str(x["m"][1]).lower():
                    c.violation("magnitude-nan", "an accepted quantity has a NaN magnitude (neither finite nor infinite)", repl)
                written = "int" if re.fullmatch(r"[+-]?[0-9]+", lit) else ("float" if re.fullmatch(r"[+-]?([0-9]+\.[0-9]*|\.[0-9]+|[0-9]+)([eE][+-]?[0-9]+)?", lit) else None)
                if written and k != written:
                    c.violation("magnitude-type-written", f"the magnitude was written as {written} ({lit!r}) but came back as {k}", repl)
    # ---------------- the same demands in a process that imported only part of the library: what a rejected input does must
    # not depend on which unit modules happen to be loaded (a lookup that fails may not load the rest as a side effect)
    pfree = ["zeebles", "5 zeebles", "m/zeebles^2", "km zeebles", "5 mA zeebles", ",,,", "", "m", "5", "ft", "5 ft", "mi/h", "5 °F", "m s", "5 km/s", "kg⋅m²"] + rng.sample(free, 40 if quick else 400)
    for mods in (["si"], []):
        pcases = [{"op": op, "s": s_, "snap": True} for s_ in pfree for op in ("parse_unit", "parse_quantity")]
        pr = C13.parse_worker({"cases": pcases, "modules": mods or ["_parser"]})["results"]
        for cs, x in zip(pcases, pr):
            c.count(["partial-import", ",".join(mods), cs["op"], cs["s"][:80]], nontrivial=True)
            repl = {"call": "Unit.parse" if cs["op"] == "parse_unit" else "Quantity.parse", "text": cs["s"][:300], "imported": ["measured"] + ["measured." + m for m in mods], "outcome": {k: v for k, v in x.items() if k in ("err", "msg", "again_same", "registry_unchanged")}}
            if "err" in x and x["err"] not in ALLOWED:
                c.violation(f"escapes:{x['err']}", f"{repl['call']} raised {x['err']} with only {repl['imported']} imported: {x.get('msg')}", repl)
            if x.get("registry_unchanged") is False:
                c.violation("registry-changed-on-reject" if "err" in x else "registry-changed-on-accept", f"parsing changed the registered names / symbols (only {repl['imported']} imported)", repl)
            if "err" not in x and not x.get("again_same"):
                c.violation("not-deterministic", "parsing the same text twice gave different results", repl)
    # ---------------- model = implementation on the structured inputs (kernel)
    td = C13.tables_coq(T)
    items = []
    for (num, den, text), x in zip(structured, r[:nstruct]):
        def tl(ts): return clist(f"({C13.cstr(s)}, {cZ(e)})" for s, e in ts)
        if "err" in x:
            exp = {"KeyError": "PKeyError", "ParseError": "PFrac"}.get(x["err"], "PMixed")
        elif not C13.exact(x["u"]): exp = "PMixed"
        else: exp = f"(POk {cunit3(x['u'])})"
        items.append(f"({tl(num)}, {'Some ' + tl(den) if den else 'None'}, {exp})")
    files = {}
    sh = 300
    hdr = C13.PHEADER + td + ("Definition case_ok (c : list (str * Z) * option (list (str * Z)) * pres) : bool :=\n"
                              "  let '(num, den, e) := c in match eval_unit tab num den, e with PMixed, _ => true | _, PMixed => true | a, b => pres_eqb a b end.\n")
    for k in range(0, len(items), sh):
        files[f"Run_parse_{k // sh}"] = hdr + f"Definition cases : list (list (str * Z) * option (list (str * Z)) * pres) := {clist(items[k:k + sh])}.\nDefinition mm := Eval vm_compute in mismatches case_ok cases.\nPrint mm.\nLemma run_agrees : mm = [].\nProof. reflexivity. Qed.\n"
    # ---------------- the whole pipeline in the kernel: characters -> scanner -> LALR driver -> tree -> terms -> unit (Model/Lex.v, LR.v,
    # TextParse.v, Parse.v on the regenerated tables) against Unit.parse of the same text
    import lexgen
    try:
        pdefs = lexgen.parser_defs()
        titems = []
        pool_texts = [(text, x) for (num, den, text), x in zip(structured, r[:nstruct])]
        pool_texts += [(cs["s"], x) for cs, x in zip(cases[nstruct:], r[nstruct:]) if cs["op"] == "parse_unit" and len(cs["s"]) <= 80]
        seen_t = set()
        for text, x in pool_texts:
            if text in seen_t or re.search(r"[0-9⁰¹²³⁴-⁹]{300,}", text): continue
            seen_t.add(text)
            if "err" in x:
                if x["err"] not in ("KeyError", "ParseError"): continue
                exp = "XKeyError" if x["err"] == "KeyError" else "XParseError"
            elif not C13.exact(x["u"]): exp = "XOutside"
            else: exp = f"(XUnit {cunit3(x['u'])})"
            titems.append(f"({C13.cstr(text)}, {exp})")
        thdr = (C13.PHEADER + pdefs + td + "Inductive expected := XUnit (u : unit3) | XKeyError | XParseError | XOutside.\n"
                "Definition text_case_ok (c : str * expected) : bool :=\n"
                "  match unit_parse_text NM tab lex_order lex_ignore lr_rules rule_infos filtered lr_terminals end_sym T_unit (fst c), snd c with\n"
                "  | TUnit (POk u), XUnit v => unit3_eqb u v\n  | TUnit PKeyError, XKeyError => true\n  | TUnit PFrac, XParseError => true\n"
                "  | TSyntaxError, XParseError => true\n  | TUnit PMixed, _ => true\n  | _, XOutside => true\n  | _, _ => false end.\n")
        for k in range(0, len(titems), sh):
            files[f"Run_textparse_{k // sh}"] = thdr + f"Definition cases : list (str * expected) := {clist(titems[k:k + sh])}.\nDefinition mm := Eval vm_compute in mismatches text_case_ok cases.\nPrint mm.\nLemma run_agrees : mm = [].\nProof. reflexivity. Qed.\n"
        # Quantity.parse: the magnitude's type and (for ints) value, the unit, or the exception class
        qitems, seen_q = [], set()
        for cs, x in zip(cases[nstruct:], r[nstruct:]):
            text = cs["s"]
            if cs["op"] != "parse_quantity" or len(text) > 80 or text in seen_q or re.search(r"[0-9⁰¹²³⁴-⁹]{300,}", text): continue
            seen_q.add(text)
            if "err" in x:
                if x["err"] not in ("KeyError", "ParseError"): continue
                exp = "QXKeyError" if x["err"] == "KeyError" else "QXParseError"
            elif not C13.exact(x["u"]): exp = "QXOutside"
            elif x["m"][0] == "int" and len(x["m"]) == 3: exp = f"(QXInt {cZ(int(x['m'][1]))} {cunit3(x['u'])})"
            elif x["m"][0] == "float": exp = f"(QXFloat {cunit3(x['u'])})"
            else: continue
            qitems.append(f"({C13.cstr(text)}, {exp})")
        # long numerals: more than 4300 digits are refused by int()
        for n_ in (20, 400, 4300, 4301, 4400):
            text = "9" * n_ + " m"
            x = C13.parse_worker({"cases": [{"op": "parse_quantity", "s": text}]})["results"][0]
            if "err" in x: qitems.append(f"({C13.cstr(text)}, {'QXParseError' if x['err'] == 'ParseError' else 'QXKeyError'})")
            elif x["m"][0] == "int": qitems.append(f"({C13.cstr(text)}, (QXInt {cZ(int(x['m'][1]))} {cunit3(x['u'])}))")
        qhdr = (C13.PHEADER + pdefs + td + "Inductive qexpected := QXInt (z : Z) (u : unit3) | QXFloat (u : unit3) | QXKeyError | QXParseError | QXOutside.\n"
                "Definition q_case_ok (c : str * qexpected) : bool :=\n"
                "  match quantity_parse_text NM QN tab lex_order lex_ignore lr_rules rule_infos filtered lr_terminals end_sym T_quantity (fst c), snd c with\n"
                "  | QOk (MInt z) (POk u), QXInt z' v => Z.eqb z z' && unit3_eqb u v\n  | QOk (MFloat _) (POk u), QXFloat v => unit3_eqb u v\n"
                "  | QOk _ PKeyError, QXKeyError => true\n  | QOk _ PFrac, QXParseError => true\n  | QSyntaxError, QXParseError => true\n"
                "  | QOk _ PMixed, _ => true\n  | _, QXOutside => true\n  | _, _ => false end.\n")
        for k in range(0, len(qitems), sh):
            files[f"Run_textq_{k // sh}"] = qhdr + f"Definition cases : list (str * qexpected) := {clist(qitems[k:k + sh])}.\nDefinition mm := Eval vm_compute in mismatches q_case_ok cases.\nPrint mm.\nLemma run_agrees : mm = [].\nProof. reflexivity. Qed.\n"
        c.cov["text_pipeline_quantity_cases"] = len(qitems)
        c.cov["text_pipeline_cases"] = len(titems)
    except lexgen.Untranslatable as ex:
        c.oblige("lexgen.parser_defs (translator of the shipped parser for the text-level pipeline)", False, f"untranslatable: {ex}")
    out = c.run_coq(files)
    for n, (ok, log) in sorted(out.items()):
        mm = re.search(r"mm =\s*(\[[^\]]*\])", log, re.S)
        bad = [int(t) for t in re.findall(r"\d+", mm.group(1))] if mm else None
        what = ("character-level pipeline model = Quantity.parse on the texts: magnitude type, integer value, unit, or KeyError / ParseError" if "textq" in n else
                "character-level pipeline model (scanner, LALR driver, transformer, evaluation) = Unit.parse on the texts: the unit, KeyError or ParseError" if "textparse" in n
                else "transformer model = Unit.parse on structured term sequences: the unit, or KeyError")
        c.oblige(f"{n}.run_agrees ({what})", ok and bad == [], f"mismatching {bad[:6] if bad else ''} {log[-400:]}")
        if bad and "text" not in n:
            base = int(n.split("_")[-1]) * sh
            for j in bad[:3]:
                c.cov.setdefault("model_impl_mismatches", []).append({"text": structured[base + j][2], "impl": r[base + j]})
    c.sample({"text": structured[0][2], "outcome": r[0].get("err") or "unit"}); c.sample({"text": free[3], "outcome": r[nstruct + 6].get("err") or "accepted"})
    c.finish(rule="Unit.parse and Quantity.parse on: structured term sequences over registered symbols, prefixed symbols, names and unknown symbols (compared with the transformer "
                  "model in the kernel); grammar-generated units and quantities with token-level damage; random strings over the grammar's alphabet and arbitrary Unicode; "
                  "very long numerals and exponents (beyond int()'s digit limit and float range), mixed-base prefixes with huge exponents, rejected inputs whose earlier terms "
                  "resolve through a prefix split; every call is repeated (same result) and the registered names/symbols are compared before and after; distinct by hash",
             extra=dict(stats, traces_validated_against_impl=len(cases)),
             assumptions=["character-level totality (the regex scanner, Python's int()/float() limits, which exceptions the callbacks raise) is established by running the "
                          "implementation, not by a theorem; the theorems are about the transformer model"])

guarded(main, "C17")
