#!/usr/bin/env python3
"""Writes the prompts for a round of seeding sub-agents: seedprompt.py <round-name> <worktree-root>
Each agent gets only the text of one property, its own scratch worktree of /repo (created beforehand under <worktree-root>/Cnn) and the list of
ideas already used for that property in earlier rounds (scraped from the seed tables of DESIGN.md, so that it looks elsewhere)."""
import json, re, sys, os
ROUND, ROOT = sys.argv[1], sys.argv[2]
HERE = os.path.dirname(os.path.dirname(os.path.abspath(__file__)))
props = {}
for l in open(os.path.join(HERE, 'properties.jsonl')):
    d = json.loads(l); props[d['id']] = d
design = open(os.path.join(HERE, 'DESIGN.md')).read()
used = {pid: [] for pid in props}
for line in design.splitlines():
    m = re.match(r"\| ((?:C\d\d-\d+(?:, )?)+) \| ([^|]+) \|", line)
    if m:
        for sid in m.group(1).split(", "):
            pid = sid.split("-")[0]
            if pid in used: used[pid].append(m.group(2).strip().replace("`", ""))
TEMPLATE = """You are helping test a verification effort for the Python library chrisguidry/measured (a units-of-measurement library). You have your own scratch git worktree of the library at {wt} (source under src/measured, tests under tests/). Work ONLY inside {wt}; never read or touch /repo or /verif.

The semantic property under study ({pid}) is:

  Title: {title}
  Statement: {statement}
  Quantified over: {quant}

Your task: produce TWO different, independent, realistic changes (mutations / plausible regressions) to the library source, each of which BREAKS this property while the code still imports and the existing test suite still passes. Prefer subtle changes that need something specific to manifest (a particular multi-step sequence of operations, an unusual input such as a negative exponent / a prefixed or compound unit / a zero / a Decimal, a particular order of earlier operations, two cooperating sites that each look fine alone, a particular thread interleaving) over ones that ordinary use would expose at once. Each change should be small (a few lines), look like a plausible refactoring, optimisation or bug a maintainer could introduce, and touch only files under src/measured (never tests, never the generated src/measured/_parser.py unless the property is about the parser).

For each change i in {{1,2}}:
 1. Make the change in the worktree and run the test suite (command below; all tests that pass on the unmodified source must still pass). Make sure the tests really import the worktree's copy (PYTHONPATH as shown).
 2. Write a demonstration {wt}/demo{{i}}.py: a small standalone program (run as PYTHONPATH={wt}/src /venv/bin/python demo{{i}}.py) that exits 0 and prints OK on the unmodified library and exits 1 printing what went wrong with your change applied. It must test the property as stated (not an implementation detail).
 3. Save the change as {wt}/patch{{i}}.diff (`git diff -- src > patch{{i}}.diff`), then revert the source (`git checkout -- src`) before starting the next change.
 4. Verify: with the source reverted demo{{i}}.py prints OK/exit 0; after `git apply patch{{i}}.diff` it fails/exit 1 and the test suite result is unchanged; revert again.

Finish with the worktree's src reverted (clean) and the four files patch1.diff, demo1.py, patch2.diff, demo2.py present. In your final answer give, for each change: one paragraph saying what it changes, why existing tests do not notice, and what specific input/sequence is needed for it to manifest. Do not install anything; there is no network.

Practical notes for this sandbox: run the test suite as
  cd {wt} && PATH=/venv/bin:$PATH PYTHONPATH={wt}/src /venv/bin/python -m pytest -q -p no:cacheprovider --no-cov 2>&1 | tail -5
Two tests (tests/test_pydantic_and_json.py::test_example_api_roundtrip and ::test_parent_api_roundtrip) fail on the unmodified source in this sandbox (HTTP 422 from the installed FastAPI) and tests/test_parsing.py::test_each_unit_roundtrips is flaky on the unmodified source (it samples random units and a few shipped units do not parse back; re-run it when it fails, and delete any .hypothesis directory): ignore those three. pytest is configured with --doctest-modules and imports every .py file in the worktree root, so put ALL of a demo's work inside `if __name__ == "__main__":`. Remove .hypothesis/.coverage files when done. Do NOT use `git stash` (the stash is shared between all worktrees of this repository and other agents are working in sibling worktrees): to go back to the clean source use `git checkout -- src`, to save a change use `git diff -- src > file`, to re-apply it `git apply file`.

This is round {round}. The following ideas have already been used in earlier rounds; produce changes of a DIFFERENT kind, touching different code and needing a different trigger: {used}. Look in less obvious places: other modules (conversions.py, formatting.py, parsing.py, json.py, pydantic.py, compat.py, the unit-definition modules and prefix tables), rarely used methods and operand types (Decimal, bool, numpy-like or Fraction-like numbers, Level, Measurement, approximately, Logarithm, LogarithmicUnit, prefixed / compound / dimensionless units, negative and zero exponents, reflected and in-place operators, __format__ specs and the IPython/MathML renderers, copy/pickle, __hash__, __bool__, __neg__/__abs__/__round__), interactions between two features, state that survives between calls (caches, registries, class attributes, default arguments, module globals, the decimal context, sys.setrecursionlimit), import order of the unit modules, and data as well as code. The change must violate the property AS STATED for inputs inside its quantifier; do not rely on behaviour the statement does not promise.
"""
for pid, d in props.items():
    wt = f"{ROOT}/{pid}"
    u = "; ".join(dict.fromkeys(used[pid])) or "none"
    open(f"{ROOT}/prompt_{pid}.txt", "w").write(TEMPLATE.format(wt=wt, pid=pid, title=d['title'], statement=d['statement'], quant=d['quantifier']['text'], used=u, round=ROUND))
print("wrote", len(props), "prompts; ideas listed for C05:", len(used['C05']))
