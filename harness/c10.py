"""C10 — temperature scales convert by their exact affine definitions."""
import sys, os
sys.path.insert(0, os.path.dirname(os.path.abspath(__file__)))
from common import *
import convlib
from convlib import frac, run_block, FUEL
from decimal import Decimal

SCALES = {"kelvin": (Fraction(1), Fraction(0)), "celsius": (Fraction(1), Fraction("273.15")),
          "Rankine": (Fraction(5, 9), Fraction(0)), "fahrenheit": (Fraction(5, 9), Fraction("459.67") * Fraction(5, 9))}
# kelvin value of a reading t on scale S:  K = a_S * t + b_S

def ideal(s1, p1, s2, p2):
    a1, b1 = SCALES[s1]; a2, b2 = SCALES[s2]
    return a1 * p1 / (a2 * p2), (b1 - b2) / (a2 * p2)

def main():
    c = Check("C10")
    c.static_theorems()
    rng = c.rng
    quick = c.tier == "quick"
    # ---------------- tie A for the declaration itself: translate's assignments read off the source (fail-closed) are the model's four stores
    import ast, re
    try:
        tree = ast.parse(open(os.path.join(REPO, "src", "measured", "conversions.py")).read())
        fn = next(f for f in tree.body if isinstance(f, ast.FunctionDef) and f.name == "translate")
        if [a.arg for a in fn.args.args] != ["scale", "zero"]: raise ValueError("translate: parameters are not (scale, zero)")
        bound, shapes = {}, []
        for st in fn.body:
            src_ = ast.unparse(st)
            m = re.fullmatch(r"(degree|offset) = zero\.(unit|magnitude)", src_)
            if m:
                if shapes: raise ValueError("translate: an operand is rebound after a store")
                bound[m.group(1)] = m.group(2); continue
            if "_ratios" in src_ or "_offsets" in src_:
                m = re.fullmatch(r"_(ratios|offsets)\[(degree|scale)\]\[(degree|scale)\] = (1|-offset|\+offset|offset)", src_)
                if not m: raise ValueError(f"translate: a store the declaration model does not have: {src_[:90]}")
                if bound != {"degree": "unit", "offset": "magnitude"}: raise ValueError("translate: a store before degree = zero.unit and offset = zero.magnitude")
                w, x, y, v = m.groups()
                if (w == "ratios") != (v == "1"): raise ValueError(f"translate: {src_[:90]}")
                shapes.append(f"({'TRatios' if w == 'ratios' else 'TOffsets'}, {'SA' if x == 'degree' else 'SB'}, {'SA' if y == 'degree' else 'SB'}, "
                              f"{'VOne' if v == '1' else 'VNeg' if v == '-offset' else 'VPos'})")
        txt = f"""From Coq Require Import List Bool. Import ListNotations.
From Measured Require Import Model.Declare.
Definition translate_stores : list tstore_shape := {clist(shapes)}.
Lemma translate_stores_shipped : tshapes_eqb translate_stores shipped_tstores = true.
Proof. vm_compute. reflexivity. Qed.
"""
        ok, log = c.run_coq({"Gen_trshape": txt})["Gen_trshape"]
        c.oblige("Gen_trshape.translate_stores_shipped (translate's assignments read off the source are the model's four stores: ratio 1 both ways, "
                 "the zero point with opposite signs; hypothesis of C10_source_stores_are_model_translate)", ok, log[-500:])
        c.cov["translate_stores"] = shapes
    except Exception as ex:
        c.oblige("translator of conversions.translate", False, str(ex))
    exp0 = impl("export_worker.py", {})
    prefixes = {n: p for n, p in exp0["prefix_by_name"].items() if not isinstance(p, dict)}
    pv = {n: (Fraction(1) if p[0] == 0 else Fraction(p[0]) ** p[1]) for n, p in prefixes.items()}
    pnames = sorted(prefixes)
    scales = list(SCALES)
    for s in scales:
        if s not in exp0["unit_by_name"]:
            c.oblige(f"scale {s} is registered", False, "missing"); c.finish(rule="-")
    # ---------------- cases on the implementation
    cases = []
    grid = []
    for s1 in scales:
        for s2 in scales:
            for p1 in [None] + pnames:
                for p2 in [None] + pnames:
                    grid.append((s1, p1, s2, p2))
    MAGS = [["int", "300", "1"], ["float", "-80", "3"]]
    for (s1, p1, s2, p2) in grid:
        for m in (MAGS if (quick and (p1 is None or p2 is None)) or not quick else MAGS[:1]):
            cases.append({"op": "in_unit", "a": {"m": m, "u": [[p1, s1, 1]]}, "b": [[p2, s2, 1]], "g": [s1, p1, s2, p2]})
    def with_ref(cs):
        s1, p1, s2, p2 = cs["g"]
        A, B = ideal(s1, pv[p1] if p1 else Fraction(1), s2, pv[p2] if p2 else Fraction(1))
        a2, b2 = SCALES[s2]; a1, b1 = SCALES[s1]
        cs["ref"] = abs(A * frac(cs["a"]["m"])) + (abs(b1) + abs(b2)) / (a2 * (pv[p2] if p2 else 1))
        return cs
    nm = 60 if quick else 200
    for s1 in scales:
        for s2 in scales:
            for _ in range(nm):
                k = rng.choice(["int", "float", "dec"])
                if k == "int": m = ["int", str(rng.choice([0, -273, -460, 100, 212, 373, rng.randint(-10**6, 10**6)])), "1"]
                elif k == "float":
                    x = rng.choice([0.0, -273.15, -459.67, 491.67, 36.6, 1e-9, rng.uniform(-1000, 5000), rng.lognormvariate(3, 4)])
                    n, d = float(x).as_integer_ratio(); m = ["float", str(n), str(d)]
                else:
                    f = Fraction(rng.randint(-10**7, 10**7), 10 ** rng.randint(0, 5)); m = ["dec", str(f.numerator), str(f.denominator)]
                cases.append({"op": "in_unit", "a": {"m": m, "u": [[None, s1, 1]]}, "b": [[None, s2, 1]], "g": [s1, None, s2, None]})
    # comparisons across scales (equality / ordering agree with the kelvin values)
    cmps = []
    ties = []
    for _ in range(150 if quick else 1500):
        s1, s2 = rng.choice(scales), rng.choice(scales)
        p1, p2 = rng.choice([None, None, "milli", "kilo"]), rng.choice([None, None, "milli", "kilo"])
        x = Fraction(rng.randint(-200, 2000))
        a1, b1 = ideal(s1, pv[p1] if p1 else 1, "kelvin", 1); kx = a1 * x + b1
        # y on scale 2 either equal to x's kelvin value by construction (dyadic cases only) or clearly apart
        delta = rng.choice([Fraction(-7), Fraction(3), Fraction(1, 4), Fraction(40)])
        ky = kx + delta
        a2, b2 = ideal("kelvin", 1, s2, pv[p2] if p2 else 1); y = a2 * ky + b2
        yn, yd = float(y).as_integer_ratio()
        cmps.append({"op": rng.choice(["lt", "gt", "le", "ge", "eq"]), "a": {"m": ["int", str(x), "1"], "u": [[p1, s1, 1]]},
                     "b": {"m": ["float", str(yn), str(yd)], "u": [[p2, s2, 1]]}, "delta": str(delta)})
    # the same reading on two scales (0 and 0, 100 and 100, ...) is equal only when the scales coincide there
    for s1 in scales:
        for s2 in scales:
            for p1, p2 in ((None, None), ("kilo", None), (None, "milli")):
                for x in (0, 100, -40):
                    a1, b1 = ideal(s1, pv[p1] if p1 else 1, "kelvin", 1); a2, b2 = ideal(s2, pv[p2] if p2 else 1, "kelvin", 1)
                    kx, ky = a1 * x + b1, a2 * x + b2
                    if kx != ky and abs(kx - ky) < Fraction(1, 1000) * max(abs(kx), abs(ky), 1): continue
                    for op in ("eq", "lt", "le", "gt", "ge"):
                        want = {"eq": kx == ky, "lt": kx < ky, "le": kx <= ky, "gt": kx > ky, "ge": kx >= ky}[op]
                        if kx == ky and (s1 != s2 or p1 != p2):
                            # exact ties reached through floats may round either way; whichever way, the six operators agree with one another
                            if op == "eq": ties.append(len(cmps)); cmps += [{"op": o_, "a": {"m": ["int", str(x), "1"], "u": [[p1, s1, 1]]}, "b": {"m": ["int", str(x), "1"], "u": [[p2, s2, 1]]}, "tie": True} for o_ in ("eq", "ne", "lt", "gt", "le", "ge")]
                            continue
                        for kind in ("int", "float"):
                            cmps.append({"op": op, "a": {"m": ["int", str(x), "1"], "u": [[p1, s1, 1]]}, "b": {"m": [kind, str(x), "1"], "u": [[p2, s2, 1]]}, "want": want})
    # differences across scales: a - b is a minus b expressed on a's scale (and + likewise), result on a's scale
    arith = []
    for _ in range(120 if quick else 1200):
        s1, s2 = rng.choice(scales), rng.choice(scales)
        p1, p2 = rng.choice([None, None, "milli", "kilo"]), rng.choice([None, None, "milli", "kilo"])
        x, y = rng.randint(-300, 3000), rng.randint(-300, 3000)
        arith.append({"op": rng.choice(["sub", "sub", "add"]), "a": {"m": [rng.choice(["int", "float"]), str(x), "1"], "u": [[p1, s1, 1]]},
                      "b": {"m": [rng.choice(["int", "float"]), str(y), "1"], "u": [[p2, s2, 1]]}, "g": [s1, p1, s2, p2, x, y]})
    # Decimal magnitudes on prefixed scales (either side), conversions and comparisons: the prefix factor may be a float, the result
    # stays a Decimal and follows the affine definition
    pdec = []
    for _ in range(150 if quick else 1500):
        s1, s2 = rng.choice(scales), rng.choice(scales)
        p1, p2 = rng.choice([None] + pnames), rng.choice([None, None] + pnames)
        if p1 is None and p2 is None: p1 = rng.choice(pnames)
        f = Fraction(rng.randint(-10**7, 10**7), 10 ** rng.randint(0, 5)); m = ["dec", str(f.numerator), str(f.denominator)]
        pdec.append({"op": "in_unit", "a": {"m": m, "u": [[p1, s1, 1]]}, "b": [[p2, s2, 1]], "g": [s1, p1, s2, p2]})
    for _ in range(60 if quick else 600):
        s1, s2 = rng.choice(scales), rng.choice(scales)
        p1, p2 = rng.choice([None, "milli", "kilo", "micro", "deci"]), rng.choice([None, "milli", "kilo", "centi"])
        x = Fraction(rng.randint(-200, 2000))
        a1, b1 = ideal(s1, pv[p1] if p1 else 1, "kelvin", 1); kx = a1 * x + b1
        delta = rng.choice([Fraction(-7), Fraction(3), Fraction(1, 4), Fraction(40)])
        a2, b2 = ideal("kelvin", 1, s2, pv[p2] if p2 else 1); y = a2 * (kx + delta) + b2
        y = Fraction(round(y * 10**6), 10**6)
        pdec.append({"op": rng.choice(["lt", "gt", "le", "ge", "eq"]), "a": {"m": ["dec", str(x), "1"], "u": [[p1, s1, 1]]},
                     "b": {"m": ["dec", str(y.numerator), str(y.denominator)], "u": [[p2, s2, 1]]}, "delta": str(delta)})
    r = impl("convsys_worker.py", {"systems": True, "cases": cases + cmps + arith + pdec})
    res_a = r["results"][len(cases) + len(cmps):]
    # approximate equality across scales (Measurement machinery): true for the same temperature, false for clearly different ones
    approx = []
    for _ in range(80 if quick else 800):
        s1, s2 = rng.choice(scales), rng.choice(scales)
        x = Fraction(rng.randint(-200, 2000))
        a1, b1 = ideal(s1, 1, "kelvin", 1); kx = a1 * x + b1
        same = rng.random() < 0.4
        ky = kx if same else kx + rng.choice([Fraction(-25), Fraction(3), Fraction(150), Fraction(-1)])
        a2, b2 = ideal("kelvin", 1, s2, 1); y = a2 * ky + b2
        yn, yd = float(y).as_integer_ratio()
        approx.append({"op": "eq", "l": {"t": "qty", "m": ["int", str(x), "1"], "u": [[None, s1, 1]]},
                       "r": {"t": "approx", "m": ["float", str(yn), str(yd)], "u": [[None, s2, 1]], "w": ["float", "1", "10000000"]}, "same": same})
    res_p = impl("meas_worker.py", {"cases": approx})["results"]
    cases = [with_ref(cs) for cs in cases]
    res_c = r["results"][:len(cases)]; res_k = r["results"][len(cases):]
    exp = r["export"]
    # ---------------- tie A: the affine theorem's finite family on the regenerated graph
    byname = {n: o for n, o in exp["unit_by_name"].items()}
    units = {u["o"]: u for u in exp["units"]}
    def unit_of(s, p):
        u = dict(units[byname[s]])
        if p: u = dict(u, p=prefixes[p])
        return u
    eps = Fraction(1, 2**48)
    fam = []
    extra_units = []
    for (s1, p1, s2, p2) in grid:
        A, B = ideal(s1, pv[p1] if p1 else Fraction(1), s2, pv[p2] if p2 else Fraction(1))
        u1, u2 = unit_of(s1, p1), unit_of(s2, p2)
        extra_units += [u1, u2]
        fam.append(f"({cunit3(u1)}, {cunit3(u2)}, {cQ(A)}, {cQ(B)})")
    for u in extra_units: u.setdefault("of", u["f"])
    td = convlib.table_defs(exp, extra_units)
    files = {}
    sh = 600
    for k in range(0, len(fam), sh):
        files[f"Gen_temp_{k // sh}"] = (convlib.CHEADER + "From Measured Require Import Proofs.ConvertFacts Proofs.ConvertLaws.\n" + td +
            f"Definition family : list (unit3 * unit3 * Q * Q) := {clist(fam[k:k + sh])}.\n"
            f"Lemma temperature_affine : forallb (fun '(s, e, A, B) => affine_case_ok bd tbl ord offs {FUEL}%nat {cQ(eps)} s e A B) family = true.\n"
            "Proof. vm_compute. reflexivity. Qed.\n")
    out = c.run_coq(files)
    fam_ok = True
    for n, (ok, log) in out.items():
        fam_ok &= ok
        c.oblige(f"{n}.temperature_affine (every (scale, prefix) -> (scale, prefix) plan of the regenerated graph is the ideal affine map within 2^-48; "
                 "lifted to all magnitudes by C10_affine_case)", ok, log[-600:])
    c.cov["affine_family"] = len(fam); c.cov["exhaustive"] = True
    # ---------------- tie B: model = implementation, and the closed form as oracle
    fl = [(cs, rs) for cs, rs in zip(cases, res_c) if cs["a"]["m"][0] != "dec"]
    de = [(cs, rs) for cs, rs in zip(cases, res_c) if cs["a"]["m"][0] == "dec"]
    run_block(c, "tf", exp, [x for x, _ in fl], [y for _, y in fl], Fraction(1, 10**11), shard=400)
    run_block(c, "td", exp, [x for x, _ in de], [y for _, y in de], Fraction(1, 10**24), shard=400)
    nbad = 0
    for cs, res in zip(cases, res_c):
        s1, p1, s2, p2 = cs["g"]
        c.count(cs, nontrivial=(s1 != s2 or p1 != p2))
        repl = {"convert": {k: cs[k] for k in ("a", "b")}, "implementation": {k: res.get(k) for k in ("m", "err", "same_unit")}}
        if "err" in res or not res.get("same_unit"):
            c.violation(f"fails:{res.get('err')}", "temperature conversion failed / wrong unit", repl); continue
        m = frac(cs["a"]["m"]); A, B = ideal(s1, pv[p1] if p1 else Fraction(1), s2, pv[p2] if p2 else Fraction(1))
        want = A * m + B; got = frac(res["m"])
        scale = max(abs(A * m), abs(B), abs(want))
        tol = Fraction(1, 10**9) if cs["a"]["m"][0] != "dec" else Fraction(1, 10**14)
        if abs(got - want) > tol * scale:
            repl["oracle"] = {"want": float(want), "got": float(got)}
            nbad += 1
            c.violation(f"affine:{s1}->{s2}" + (":prefixed" if p1 or p2 else ""), f"{float(m)} {p1 or ''}{s1} -> {p2 or ''}{s2}: got {float(got)}, exact affine definition gives {float(want)}", repl)
        if cs["a"]["m"][0] == "dec" and res["m"][0] != "dec":
            c.violation("decimal-lost", "Decimal magnitude became " + res["m"][0], repl)
    for t0 in ties:
        R = {cmps[t0 + j]["op"]: res_k[t0 + j] for j in range(6)}
        if any("bool" not in v for v in R.values()):
            c.violation("compare:tie-raises", f"comparing one temperature read on two scales raised: {R}", {"cases": cmps[t0:t0 + 6], "implementation": R}); continue
        g = lambda k: R[k]["bool"]
        if g("ne") == g("eq") or [g("lt"), g("eq"), g("gt")].count(True) != 1 or g("le") != (g("lt") or g("eq")) or g("ge") != (g("gt") or g("eq")):
            c.violation("compare:tie-incoherent", f"the six comparisons of one temperature read on two scales contradict one another: { {k: g(k) for k in R} }", {"cases": cmps[t0:t0 + 6], "implementation": R})
    for cs, res in zip(cmps, res_k):
        c.count(cs)
        if cs.get("tie"): continue
        if "want" in cs:
            want = cs["want"]; d = "same reading on two scales"
        else:
            d = Fraction(cs["delta"]); want = {"lt": d > 0, "le": d > 0, "gt": d < 0, "ge": d < 0, "eq": False}[cs["op"]]; d = float(d)
        if res.get("bool") != want:
            c.violation("compare:" + cs["op"], f"{cs['op']} is {res.get('bool', res.get('err'))} but the kelvin values say {want} ({d})", {"case": cs, "implementation": res})
    for cs, res in zip(pdec, r["results"][len(cases) + len(cmps) + len(arith):]):
        c.count(cs, nontrivial=True)
        repl = {"case": {k: cs[k] for k in ("op", "a", "b")}, "implementation": {k: res.get(k) for k in ("m", "err", "same_unit", "bool")}}
        if "err" in res:
            c.violation(f"fails:{res.get('err')}", f"{cs['op']} on Decimal magnitudes of prefixed temperature scales raised {res['err']}", repl); continue
        if cs["op"] == "in_unit":
            s1, p1, s2, p2 = cs["g"]
            m = frac(cs["a"]["m"]); A, B = ideal(s1, pv[p1] if p1 else Fraction(1), s2, pv[p2] if p2 else Fraction(1))
            want = A * m + B; got = frac(res["m"])
            b1_, b2_ = SCALES[s1][1], SCALES[s2][1]
            scale = max(abs(A * m), abs(B), abs(want), (abs(b1_) + abs(b2_)) / (SCALES[s2][0] * (pv[p2] if p2 else 1)))
            if not res.get("same_unit") or abs(got - want) > Fraction(1, 10**9) * scale:
                c.violation(f"affine:{s1}->{s2}:prefixed", f"Decimal {float(m)} {p1 or ''}{s1} -> {p2 or ''}{s2}: got {float(got)}, exact affine definition gives {float(want)}", repl)
            if res["m"][0] != "dec":
                c.violation("decimal-lost", "Decimal magnitude became " + res["m"][0], repl)
        else:
            d = Fraction(cs["delta"]); want = {"lt": d > 0, "le": d > 0, "gt": d < 0, "ge": d < 0, "eq": False}[cs["op"]]
            if res.get("bool") != want:
                c.violation("compare:" + cs["op"], f"{cs['op']} is {res.get('bool')} but the kelvin values say {want} ({float(d)})", repl)
    for cs, res in zip(arith, res_a):
        c.count(cs, nontrivial=True)
        s1, p1, s2, p2, x, y = cs["g"]
        A, B = ideal(s2, pv[p2] if p2 else Fraction(1), s1, pv[p1] if p1 else Fraction(1))        # b on a's scale
        by = A * y + B
        want = x - by if cs["op"] == "sub" else x + by
        if "err" in res or len(res.get("m", [])) != 3:
            c.violation(f"arith-raises:{cs['op']}", f"{cs['op']} across temperature scales: {res}", {"case": cs, "implementation": res}); continue
        got = frac(res["m"])
        if abs(got - want) > Fraction(1, 10**9) * max(abs(want), abs(x), abs(by)) or not res.get("unit_is_left"):
            c.violation(f"difference:{cs['op']}", f"{x} {p1 or ''}{s1} {'-' if cs['op'] == 'sub' else '+'} {y} {p2 or ''}{s2}: got {float(got)}, the affine definitions give {float(want)}",
                        {"case": cs, "implementation": res})
    for cs, rec in zip(approx, res_p):
        c.count(cs, nontrivial=True)
        res = rec["res"]
        if res.get("t") != "bool" or rec.get("rev", {}).get("t") != "bool":
            c.violation("approx-raises", f"comparison with approximately() across scales: {res}", {"case": cs, "implementation": rec}); continue
        if res["b"] != cs["same"] or rec["rev"]["b"] != cs["same"]:
            c.violation("approx-eq", f"a == approximately(b) is {res['b']} (reversed {rec['rev']['b']}) but the two temperatures are {'the same' if cs['same'] else 'different'}",
                        {"case": cs, "implementation": rec})
    c.sample({"convert": cases[5]["a"], "to": cases[5]["b"], "result": res_c[5].get("m")}); c.sample({"compare": cmps[0], "result": res_k[0]})
    c.finish(rule="all 16 ordered pairs of {K, degC, degF, R} x (no prefix + every registered same-base prefix)^2 (exhaustive grid, both as a Coq obligation on "
                  "the regenerated graph and on the implementation), plus int/float/Decimal magnitudes incl. below absolute zero per unprefixed pair, plus "
                  "cross-scale comparisons; oracle = exact affine definitions in rationals at 1e-9 of the largest term; non-trivial = scale or prefix differs",
             extra={"traces_validated_against_impl": len(cases) + len(cmps) + len(arith) + len(approx)},
             assumptions=["the declared constants are floats: the affine coefficients are within 2^-48 (relative) of the exact decimal definitions, checked in the kernel",
                          "float rounding of the implementation is measured at 1e-11 against the exact model, not proved"])

guarded(main, "C10")
