"""Synthetic, exactly-consistent unit systems for the conversion checks: every unit has a hidden size
2**k (relative to the coherent unit of its dimension), every declared ratio is a power of two, so
every float operation the library performs on them is exact and redundant definition paths agree
exactly."""
from common import *

# dimension pool (indices into the fundamental dimensions other than number: 1 length, 2 time, 3 mass)
DIMS = {"L": [[1, 1]], "T": [[2, 1]], "M": [[3, 1]], "N": [], "LT-1": [[1, 1], [2, -1]], "L2": [[1, 2]],
        "T-1": [[2, -1]], "L3T-1": [[1, 3], [2, -1]], "MLT-2": [[1, 1], [2, -2], [3, 1]]}

def dim_of_spec(units, spec):
    d = {}
    for _, n, e in spec:
        for i, x in units[n]["dim"]:
            d[i] = d.get(i, 0) + x * e
    return sorted([i, x] for i, x in d.items() if x)

def gen_system(rng, tag, sparse=0.0):
    """returns dict(define, decls, units{name: dim, k}) ; names are unique per tag"""
    units = {}
    define = []
    def add(dname):
        n = f"zz{tag}x{len(units)}"
        units[n] = {"dim": DIMS[dname], "dname": dname, "k": rng.randint(-5, 5)}
        define.append([n, DIMS[dname]])
        return n
    base = {}
    for dname in ("L", "T", "M", "N"):
        base[dname] = [add(dname) for _ in range(rng.choice([2, 2, 3]))]
    derived = {}
    for dname in rng.sample(["LT-1", "L2", "T-1", "L3T-1", "MLT-2"], rng.choice([2, 3, 4])):
        derived[dname] = [add(dname) for _ in range(rng.choice([1, 2]))]
    decls = []
    def declare(ua, ub):
        # ua (a spec) equals 2**k ub, with k from the hidden sizes; sometimes the declaration is written with prefixed units
        if rng.random() < 0.25:
            ua = [[rng.choice([[2, 3], [2, -2], [2, 7]]), n, e] if i == 0 else [p, n, e] for i, (p, n, e) in enumerate(ua)]
        if rng.random() < 0.2:
            ub = [[rng.choice([[2, 4], [2, -1]]), n, e] if i == 0 else [p, n, e] for i, (p, n, e) in enumerate(ub)]
        ka = sum((units[n]["k"] + (p[1] if p else 0)) * e for p, n, e in ua); kb = sum((units[n]["k"] + (p[1] if p else 0)) * e for p, n, e in ub)
        r = Fraction(2) ** (ka - kb)
        kind = "int" if r.denominator == 1 else "float"
        decls.append([ua, [kind, str(r.numerator), str(r.denominator)], ub])
    # chains (and some redundant edges) among units of one dimension
    for grp in list(base.values()) + list(derived.values()):
        for i in range(1, len(grp)):
            if rng.random() < sparse: continue      # leave this unit unconnected (C07)
            declare([[None, grp[i], 1]], [[None, grp[rng.randrange(i)], 1]])
        if len(grp) >= 3 and rng.random() < 0.5:
            declare([[None, grp[0], 1]], [[None, grp[-1], 1]])
    # derived units defined by compound expressions of base units
    comp = {"LT-1": [("L", 1), ("T", -1)], "L2": [("L", 2)], "T-1": [("T", -1)], "L3T-1": [("L", 3), ("T", -1)],
            "MLT-2": [("M", 1), ("L", 1), ("T", -2)]}
    for dname, grp in derived.items():
        for u in grp[:1] + ([grp[-1]] if rng.random() < 0.3 else []):
            if rng.random() < sparse: continue
            spec = [[None, rng.choice(base[b]), e] for b, e in comp[dname]]
            if dname == "L2" and rng.random() < 0.5:
                spec = [[None, rng.choice(base["L"]), 1], [None, rng.choice(base["L"]), 1]]
                if spec[0][1] == spec[1][1]: spec = [[None, spec[0][1], 2]]
            declare([[None, u, 1]], spec)
    return {"define": define, "decls": decls, "units": units, "base": base, "derived": derived}

def rand_spec(rng, sysd, nmax=3):
    names = sorted(sysd["units"])
    n = rng.choice([1, 1, 2, 2, 3][:nmax + 2])
    spec = []
    for _ in range(n):
        p = None
        if rng.random() < 0.3:
            p = rng.choice([[2, 3], [2, -2], [2, 10], [2, -1]])
        spec.append([p, rng.choice(names), rng.choice([1, 1, 1, 2, -1, -1, -2, 3])])
    return spec

def gen_pair(rng, sysd):
    """(start, end) specs of equal dimension"""
    units = sysd["units"]
    by_dim = {}
    for n, u in units.items():
        by_dim.setdefault(json.dumps(u["dim"]), []).append(n)
    for _ in range(60):
        start = rand_spec(rng, sysd)
        r = rng.random()
        if r < 0.6:
            end = []
            for p, n, e in start:
                alts = by_dim[json.dumps(units[n]["dim"])]
                end.append([rng.choice([None, None, [2, 3], [2, -4]]), rng.choice(alts), e])
            if rng.random() < 0.3: rng.shuffle(end)
        else:
            tot = dim_of_spec(units, start)
            cands = []
            for pw in (1, 2, 3, -1, -2):
                if all(x % pw == 0 for _, x in tot):
                    key = json.dumps([[i, x // pw] for i, x in tot])
                    for nm in by_dim.get(key, []):
                        cands.append([[rng.choice([None, [2, 5]]), nm, pw]])
            # or expand a derived unit into base units
            if not cands: continue
            end = rng.choice(cands)
            if rng.random() < 0.5: start, end = end, start
        return start, end
    n = sorted(units)[0]
    return [[None, n, 1]], [[None, n, 1]]

def spec_log2(sysd, spec):
    """log2 of prefix*size of a spec (hidden sizes)"""
    k = 0
    for p, n, e in spec:
        k += sysd["units"][n]["k"] * e
        if p: k += p[1] * e
    return k

def sizes_coq(exp, sysd):
    """Coq sizes list for the exported base-unit ids"""
    byname = {n: i for i, _, n in exp["env"]}
    items = []
    for n, u in sysd["units"].items():
        if n in byname:
            items.append(f"({cpos(byname[n])}, {cQ(Fraction(2) ** u['k'])})")
    return clist(items)

def alt(rng, sysd, start):
    units = sysd["units"]
    by_dim = {}
    for n, u in units.items():
        by_dim.setdefault(json.dumps(u["dim"]), []).append(n)
    end = []
    for p, n, e in start:
        end.append([rng.choice([None, None, [2, 3], [2, -4]]), rng.choice(by_dim[json.dumps(units[n]["dim"])]), e])
    if rng.random() < 0.3: rng.shuffle(end)
    return end
