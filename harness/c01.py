"""C01 — a unit's dimension always equals the product of its factors' dimensions."""
import sys, os
sys.path.insert(0, os.path.dirname(os.path.abspath(__file__)))
from common import *
import unitgen as G

def registry_file(exp):
    tbl = clist(cunit3(u) for u in exp["units"] if not isinstance(u["p"], dict))
    return HEADER + "From Measured Require Import Proofs.Decide Proofs.History.\n" + f"""
Definition registry_env : env := {G.coq_env(exp['env'])}.
Definition registry_tbl : table := {tbl}.
(* the state left by importing every shipped module is well-formed, so C01_invariant applies to it *)
Lemma registry_wf : swfb (MkS registry_tbl registry_env) = true.
Proof. vm_compute. reflexivity. Qed.
Theorem registry_SWF : SWF (MkS registry_tbl registry_env).
Proof. apply swfb_spec. exact registry_wf. Qed.
"""

from c01_lib import shard_file, diag_file

def python_monitor(c, hist, results, exp, prefixes, envdims, hidx):
    """the property's own observable, evaluated on the implementation's answers"""
    found = False
    for i, (op, rec) in enumerate(zip(hist, results)):
        res = rec["res"]
        if "monitor_bad" in rec:
            found |= c.violation("poisoned:" + json.dumps(rec["monitor_bad"]["f"]),
                                 f"after op {i} a unit in Unit._known reports dimension {rec['monitor_bad']['d']} "
                                 f"which is not the product of its factors {rec['monitor_bad']['f']}",
                                 {"history": hist[:i + 1], "bad_unit": rec["monitor_bad"],
                                  "how": "PYTHONPATH=/repo/src /venv/bin/python harness/impl/units_worker.py with {histories:[history],monitor:true}"})
            break
        if op[0] == "eval" and "err" not in res and not isinstance(res["p"], dict):
            try:
                p, f, d = G.oracle(op[1], rec["leaves"], prefixes, envdims)
            except (G.Frac, G.Mixed):
                continue
            if sorted(d.items()) != sorted((a, b) for a, b in res["d"]):
                found |= c.violation("wrongdim:" + json.dumps(op[1]),
                                     f"expression reports dimension {res['d']} but its factors give {sorted(d.items())}",
                                     {"history": hist[:i + 1]})
    return found

def main():
    c = Check("C01")
    c.static_theorems()
    # tie A: the rendering functions change nothing reachable from their arguments (a rendering cannot change what a unit is)
    try:
        import struct_scan
        muts = struct_scan.argument_mutations("formatting.py")
        txt_ = ("From Coq Require Import List. Import ListNotations.\n"
                f"(* statements of formatting.py that mutate an argument: {muts} *)\n"
                f"Definition argument_mutations_in_formatting : list nat := {clist('%d%%nat' % min(l_, 4999) for _f, l_, _s in muts)}.\n"
                "Lemma renderers_do_not_mutate_their_arguments : argument_mutations_in_formatting = [].\nProof. reflexivity. Qed.\n")
        ok_, log_ = c.run_coq({"Gen_purity": txt_})["Gen_purity"]
        c.oblige("Gen_purity.renderers_do_not_mutate_their_arguments (no statement of formatting.py assigns to, augments, deletes from or calls a mutating method on an object reachable from a parameter)",
                 ok_, f"mutating statements: {muts}")
    except Exception as ex:
        c.oblige("struct_scan.argument_mutations (translator over formatting.py)", False, str(ex))
    exp = impl("export_worker.py", {})
    prefixes = exp["prefix_by_name"]
    names = [n for n in G.NAMES if n in exp["unit_by_name"]]
    G.SI_PREFIXES[:] = [p for p in G.SI_PREFIXES if p in prefixes]
    G.IEC_PREFIXES[:] = [p for p in G.IEC_PREFIXES if p in prefixes]
    # registry obligation (tie A: regenerated from the source on every run)
    out = c.run_coq({"Gen_registry": registry_file(exp)})
    ok, log = out["Gen_registry"]
    c.oblige("Gen_registry.registry_wf (every interned unit of the shipped modules is well-formed)", ok, log)
    for u in exp["units"]:
        c.count(["registry", u["f"], u["p"]])
    nh, nops = (300, 25) if c.tier == "quick" else (1500, 45)
    hists = [G.gen_history(c.rng, c.rng.randint(4, nops), 4, names) for _ in range(nh)]
    # corpus first
    corpus = os.path.join(ROOT, "corpus", "C01")
    if os.path.isdir(corpus):
        for f in sorted(os.listdir(corpus)):
            hists.insert(0, json.load(open(os.path.join(corpus, f)))["history"])
    batch = 100
    all_items = []
    nops_total = 0
    kinds = {}
    for b in range(0, len(hists), batch):
        part = hists[b:b + batch]
        r = impl("units_worker.py", {"histories": part, "monitor": True})
        envdims = {i: {a: x for a, x in d} for i, d, _ in r["env"]}
        for hi, (h, res) in enumerate(zip(part, r["results"])):
            python_monitor(c, h, res, exp, prefixes, envdims, b + hi)
            items, truncated = G.coq_history(h, res, prefixes, None)
            all_items.append((b + hi, items))
            for op, rec in zip(h, res):
                nops_total += 1
                c.count(op, nontrivial=(op[0] == "eval" and G.expr_size(op[1]) > 1))
                k = rec["res"].get("err", "unit") if isinstance(rec["res"], dict) else "unit"
                kinds[k] = kinds.get(k, 0) + 1
            if hi < 2 and b == 0:
                c.sample({"history": h[:6], "results": [x["res"] for x in res[:6]]})
    # deserialization in a fresh process: documents written by one process are decoded by another BEFORE it has built those units
    # by arithmetic, so the decoder's own dimension computation is what gets interned
    specs = []
    dn = [n for n in ("meter", "second", "gram", "parsec", "shake", "firkin", "foot", "newton", "liter", "hertz", "furlong", "fortnight") if n in exp["unit_by_name"]]
    for i in range(40 if c.tier == "quick" else 400):
        k = c.rng.choice([2, 2, 3])
        specs.append([[c.rng.choice([None, None, "kilo", "milli"]), c.rng.choice(dn), c.rng.choice([1, 2, -1, -2, 3, -3])] for _ in range(k)])
    docs = impl("deser_worker.py", {"mode": "dump", "units": specs})["docs"]
    for how in ("json", "pickle", "qjson"):
        sub = [dict(d, how=how) for d in docs]
        c.rng.shuffle(sub)
        rr = impl("deser_worker.py", {"mode": "load", "docs": sub})
        for d, x in zip(sub, rr["results"]):
            c.count(["deserialize", how, d["spec"]], nontrivial=True)
            if "err" in x and how == "qjson" and x["err"].split(":")[0] in ("ParseError", "KeyError"):
                continue        # the quantity's unit text does not parse (C13 / C15 finding classes); no unit was obtained
            if "err" in x:
                c.violation(f"deserialize-raises:{how}", f"decoding {d['spec']} ({how}) in a fresh process raised {x['err']}", {"spec": d["spec"], "how": how}); continue
            if not x["consistent"] or x["dim"] != d["dim"] or x["arith_dim"] != d["dim"] or (how != "qjson" and not x["same_as_arithmetic"]):
                # (a quantity's JSON carries the unit as text; "kg" reads back as the named unit kilogram, which is equivalent to but not the
                #  object Kilo * Gram, so identity with the arithmetic result is only demanded of the structural codecs)
                c.violation(f"deserialized-dimension:{how}", f"a unit decoded ({how}) before it was built by arithmetic reports dimension {x['dim']} (its factors give {d['dim']}); "
                                                              f"the same expression computed afterwards reports {x['arith_dim']}", {"spec": d["spec"], "how": how, "document": d.get(how if how != "qjson" else "qjson")})
        for bu in rr.get("inconsistent_units", []):
            c.violation("poisoned:" + json.dumps(bu["f"]), "after deserialization a registered unit reports a dimension that is not the product of its factors' dimensions", {"unit": bu, "how": how})
    # the second sentence on expressions that go through quantities and through the parser: evaluated in a fresh process, and in a
    # process that first did ordinary things with the same units (augmented assignment on public results, the compact spellings of
    # the same texts, every rendering)
    probes = []
    for i in range(12 if c.tier == "quick" else 120):
        k = c.rng.choice([1, 2, 2])
        spec = [[c.rng.choice([None, "kilo", "milli", "mega"]), c.rng.choice(dn), c.rng.choice([1, 2, -1])] for _ in range(k)]
        probes += [["quantify", spec], ["unprefixed", spec], ["expr", spec]]
    for text in ("m s", "m N", "h a", "m in.", "k g", "m m", "d a", "c d", "P a", "m Pa", "G y", "m s⁻¹", "kg m s⁻²", "m K", "n mi.", "f t", "T R"):
        probes += [["parse", text], ["qparse", text]]
    # every registered symbol as the unit text of a quantity (constructor and JSON document) and of Unit.parse: what a symbol means does
    # not depend on which quantities were written out earlier (prefix + symbol spellings that coincide with it: cd, ha, min, ...)
    syms_ = impl("export_worker.py", {})
    for sym in sorted(syms_.get("unit_by_symbol", {})):
        probes += [["qparse", sym], ["qjson", sym], ["parse", sym]]
    late = [["dam", "time"], ["ms", "speed"], ["mK", "length"], ["Gs", "mass"], ["kat", "area"]]
    for text, _d in late:
        probes += [["parse", text], ["qparse", text], ["parse", text + "²"], ["parse", "m " + text]]
    fresh = impl("exprhist_worker.py", {"probes": probes, "disturb": False, "late": late})["results"]
    after = impl("exprhist_worker.py", {"probes": probes, "disturb": True, "late": late})["results"]
    for p_, a, b in zip(probes, fresh, after):
        c.count(["expression-history", p_], nontrivial=True)
        if "err" in a and "err" in b: continue
        if ("err" in a) != ("err" in b) or a["dim"] != b["dim"] or not a.get("consistent", True) or not b.get("consistent", True):
            c.violation("history-dependent-expression", f"{p_} reports {a.get('dim', a.get('err'))} in a fresh process and {b.get('dim', b.get('err'))} after ordinary operations on the same units",
                        {"probe": p_, "fresh": a, "after": b, "how": "harness/impl/exprhist_worker.py disturb(): in-place arithmetic on quantify()/unprefixed() results, compact spellings parsed first, every rendering"})
    env0 = exp["env"]
    shard = 60
    files = {}
    for s in range(0, len(all_items), shard):
        files[f"Run_C01_{s // shard}"] = shard_file(env0, [it for _, it in all_items[s:s + shard]])
    outs = c.run_coq(files)
    for n, (ok, log) in sorted(outs.items()):
        c.oblige(f"{n}.run_agrees (model = implementation on every operation of {shard} histories)", ok, log[-800:])
        if not ok:
            s = int(n.split("_")[-1]) * shard
            okd, dlog = c.coq_eval(n + "_diag", diag_file(env0, [it for _, it in all_items[s:s + shard]]))
            idx = [int(x) for x in re.findall(r"(\d+)%nat|\b(\d+)\b", dlog.split("=")[-1].split(":")[0]) for x in x if x] if okd else []
            c.notes.append(f"{n}: model/implementation mismatch at histories {[s + i for i in idx][:10]}")
            for i in idx[:3]:
                c.cov.setdefault("mismatching_histories", []).append(hists[s + i])
    # "at every moment": one thread renders a compound unit, paused before each source line of formatting.py in turn, while another does
    # arithmetic on that unit and on its prefixed / unprefixed twins
    rr_ = impl("renderrace_worker.py", {"units": 2 if c.tier == "quick" else 4, "stride": 2 if c.tier == "quick" else 1}, timeout=1500)["results"]
    for x in rr_:
        c.count(["render-in-progress", x["unit"], x["rendering"], x["k"]], nontrivial=x["paused"])
        for b in x["bad"]:
            c.violation("inconsistent-while-rendering", f"while a rendering of a compound unit stood before its line {x['k']} of {x['lines']} in formatting.py, {b[0]} computed by another thread "
                        f"gave a unit whose dimension is not the product of its factors' dimensions: {json.dumps(b[1:])[:300]}",
                        {"unit": x["unit"], "rendering": x["rendering"], "paused_before_line": x["k"], "result": b, "how": "harness/impl/renderrace_worker.py"})
    c.cov["render_pause_points"] = len(rr_)
    c.finish(rule="random histories of base-unit definitions and unit expressions (products, quotients, powers, roots, "
                  "prefixing, numerator/denominator via every rendering route, unprefixing, pickle/copy/json routes) over "
                  "registered and freshly defined base units with mixed-sign derived dimensions; after every step the "
                  "whole of Unit._known is re-checked; a case is non-trivial when the expression has more than one node; "
                  "distinct by hash of the operation",
             extra={"histories": len(hists), "operations": nops_total, "outcome_kinds": kinds,
                    "registry_units": len(exp["units"]),
                    "traces_validated_against_impl": len(hists)},
             assumptions=["direct calls of the Unit(...) constructor with a wrong dimension and Dimension.define of new "
                          "fundamental dimensions mid-history are outside the property's operations",
                          "mixed-base (SI x IEC) prefix products leave the exact model; the history is compared up to that point"])

guarded(main, "C01")
