#!/usr/bin/env python3
"""Regenerate MANIFEST.json from the table below (keeps it valid at all times)."""
import json, os
ROOT = os.path.dirname(os.path.dirname(os.path.abspath(__file__)))
TB = ("Trusted: Coq 8.16.1 kernel + vm_compute (no native_compute), std++/stdlib, the harness exporters and case "
      "generators, CPython semantics as modelled; floats are embedded as exact rationals. The thorough tier also runs coqchk -o over the property's compiled "
      "theorems and everything they depend on (an obligation: only the standard library's axioms, no type-in-type / unsafe fixpoint / assumed positivity). ")
CHECKS = {
 "C01": dict(
   text="Machine-checked invariant over all histories: Theorem C01_all_histories (induction over operation lists of the "
        "intern-table state machine: every stored dimension equals the product of the base-unit dimensions), "
        "C01_history_independent (stateful evaluation = pure normal form). Tied to the code per run by (A) a regenerated "
        "obligation that the registry left by importing all shipped modules is well-formed (swfb by vm_compute) and (B) "
        "kernel-checked correspondence of the model with the implementation on random histories, plus the property's "
        "own monitor over Unit._known after every step. Gen_purity: no statement of formatting.py mutates anything reachable from a parameter (ast scan, fail-closed); a rendering paused before each of its source lines while another thread does arithmetic on the unit leaves every unit consistent.",
   note=TB + "Modelled, not verified: Unit.__new__/__init__ interning, dict semantics; direct Unit(...) constructor calls with "
        "an inconsistent dimension are outside the property. Axioms: none (closed under the global context).",
   tech="Rocq proof: invariant by induction over histories + vm_compute correspondence lemmas", ref="DESIGN.md §4 C01"),
 "C02": dict(
   text="Theorems C02_identity (same table handle iff same normal form, in every reachable state), and the abelian-group "
        "laws C02_mul_comm/assoc/one_neutral/inverse/div_is_mul_inv/pow_add/pow_mul/root_pow plus dimension and same-base "
        "prefix laws, for all units. Correspondence: identity classes (id()) and normal forms of the implementation vs "
        "model on law-shaped expression groups evaluated in shuffled order; mixed-base prefixes numerically at 1e-9. C02_define_keeps_table_canonical / C02_define_keeps_objects / C02_define_commutes_with_arithmetic (Model/DimDefine.v): Dimension.define re-keys the intern table without duplicating, moving or re-shaping anything, and the group operations commute with the re-keying; per run Gen_rekey pushes the exported table through the modelled define and compares with the table exported after.",
   note=TB + "Float exponents of mixed-base prefixes are outside the exact model (property relaxes them to 1e-9); their real-number meaning is proved exactly over R (C02_mixed_base_mul/div/pow). Axioms: none for the exact theorems; the three mixed-base theorems use the standard library reals (ClassicalDedekindReals.sig_not_dec, sig_forall_dec, functional_extensionality_dep, Classical_Prop.classic).",
   tech="Rocq proof: free-abelian-group normal forms over gmap + intern-table invariant; vm_compute correspondence", ref="DESIGN.md §4 C02"),
 "C08": dict(
   text="Generic memoisation theorem, proved for every planner function f, every cacheability rule and every interleaving: "
        "C08_transparent / C08_every_answer (with invalidation on declaration each answer equals f of the declarations made "
        "so far) and C08_refuted_without_invalidation. Tied to the code by (A) an AST-derived obligation that every lru_cache'd "
        "function of conversions.py is cleared by both equate and translate, and (B) interleaved histories in one process vs the "
        "same declarations + the query in fresh processes, re-checked in the kernel through the memo machine. C08_refuted_factor_order: the planner itself is not a function of the declarations alone -- it walks the factors of interned operands in the order of their first construction; scenario 'operand-order' (fresh process per query) reproduces this on the implementation and is the recorded finding history-dependent:factor-order, classified only when the planner model fed each process's exported factor order reproduces each outcome. "
        "C08_declaration_in_progress (Model/Memo2.v: two memo tables in series, a declaration as separate source lines with whole queries of other threads between them): with the memoised "
        "paths forgotten before the plans, every declaration leaves the state of a fresh process; C08_refuted_plans_forgotten_first is the order the library had before the repair e2a1d4e. "
        "Per run Gen_declshape reads equate/translate/_forget_cached_conversions line by line, and the declaring thread is paused before each of its source lines while a second thread queries. "
        "C08_declarations_keep_table_reciprocal / C08_latest_declaration_in_force / C08_other_declaration_keeps (Model/Declare.v, Proofs/EquateFacts.v): after any history of declarations and "
        "re-declarations both directions of every pair carry the figure of its latest declaration; C08_refuted_reverse_ratio_kept; tied per run by Gen_eqshape (equate's assignments read off the source).",
   note=TB + "Assumes the planner has no hidden state besides _ratios/_offsets and the two lru caches (validated by the "
        "fresh-process differential). C08_lookups_register_nothing_visible / C08_lookups_keep_plans (Proofs/TableRows.v: empty rows that defaultdict lookups register are invisible to every "
        "function of the planner model; per run Gen_rows checks that the package reads the tables only through rows). Axioms: functional_extensionality_dep (standard library) for those two "
        "theorems only; every other C08 theorem is closed under the global context.",
   tech="Rocq proof: cache-coherence invariant by induction over histories (parametric in the planner)", ref="DESIGN.md §4 C08"),
 "C15": dict(
   text="Theorems C15_reenter_by_key / C15_intern_keeps_keys_unique (any table interned by a decidable key: handing a stored key back returns the same entry and changes "
        "nothing; dimensions are keyed by exponent tuple, prefixes by (base, exponent)), C15_unit_reenter and C15_unit_reenter_reachable (Unit(prefix, factors, any dimension) "
        "with a stored unit's prefix and factors is that stored unit, in every state reachable by the public operations), C15_prefix_reenter. Per run: Coq checks on the "
        "exported registry that the (prefix, factors) keys of all registered units are pairwise distinct and that every unit's constructor arguments find it; on the "
        "implementation every registered dimension, prefix and unit goes through pickle (default and protocol 2), copy, deepcopy, the JSON codec classes, the installed "
        "codecs and pydantic (JSON text and plain dict), plus random compound / prefixed units, mixed-base prefixes and int/float/Decimal quantities (also the SQL "
        "composite form): identity, unchanged names/symbols, equality, magnitude type. Codec model (Model/Codec.v): JSON documents of dimensions, prefixes and units as a datatype, enc/dec as functions against the interning registry; C15_json_unit_roundtrip(_checked): decoding the written document returns the same handle and leaves the registry unchanged under unique keys, faithful names, stored factors, canonical prefixes (boolean forms proved sound and evaluated on the exported registry each run); C15_json_dimension/prefix_roundtrip; C15_refuted_value_one_prefix (the defect repaired by 1df1998, found by this proof); pickle model pload/pdump with C15_pickle_roundtrip, C15_stale_pickle_keeps_names, C15_refuted_stale_pickle (36300c5). Tie: keys read by each __from_json__ and the __setstate__ guards extracted from the source (fail-closed); encoder documents = enc_unit and the library's decoder = dec_unit on written and mutated documents, in the kernel. C15_quantity_document_roundtrip / C15_quantity_document_fails_only_through_unit_text: the quantity document (magnitude with its type + str(unit)) round-trips exactly when the unit's text does.",
   note=TB + "Modelled, not verified: the pickle / copy / json / pydantic protocols themselves (that they call __new__ with __getnewargs_ex__ / __from_json__). Quantity JSON "
        "stores the unit as text and inherits C13's findings (known finding). Pickle protocols 0/1 cannot pickle __slots__ classes (CPython rule). Axioms: none.",
   tech="Rocq proof: intern-table re-entry lemmas (generic keyed table + unit table over all histories) + reflective vm_compute check of the exported registry + exhaustive codec runs",
   ref="DESIGN.md §4 C15"),
 "C16": dict(
   text="Theorem C16_bisim_sound: for ANY scanner (the regex engine), ANY tree-building callbacks and any input, two LALR tables related by a state map that "
        "respects every shift/reduce/goto entry, the start state and the end state drive Lark's runtime (ParserState.feed_token with contextual accept sets, modelled "
        "in Model/LR.v) to identical outcomes: same accept/reject, same tree; C16_same_accept_sets. Per run both artefacts are regenerated: the shipped tables from "
        "_parser.DATA/MEMO and fresh tables by running the Makefile's generator command on measured.lark; Coq discharges shipped_is_fresh_unit/quantity (all states and "
        "entries), tables closed, end states without actions, rules_equal, terminals_equal, options_equal. Both real parsers also run on generated accepted and rejected "
        "strings (trees compared canonically); when an obligation breaks, the access path of the first table difference and the characters on which two terminal "
        "regexes disagree are turned into candidate inputs. C16_every_text: with the character-level model (Model/Lex.v: Python-re matching for the terminals' regex subset, Lark's scanner order, contextual lexer with root-lexer fallback, tree builder) two artefacts with equal scanner data and related tables return the same tree or exception class on EVERY text; the regexes are parsed out of _parser.MEMO by a fail-closed translator, Gen_lexdata shows both artefacts yield the same terms, and Run_text_* compares the model with the shipped parser text by text (also through measured._parser.Parser() as the package uses it).",
   note=TB + "Modelled, not verified: the embedded Lark runtime (driver + contextual lexer are modelled; regex matching and callbacks are parameters of the theorem, "
        "so it holds whatever they do as long as both parsers use the same terminal definitions and rules, which is checked). The generator is the installed Lark 1.3.1; "
        "the shipped module embeds 1.1.2. Axioms: none.",
   tech="Rocq proof: simulation between LALR drivers by induction on fuel + reflective vm_compute check of the regenerated tables", ref="DESIGN.md §4 C16"),
 "C17": dict(
   cat="proof",
   text="Theorems about the transformer model (Model/Parse.v): C17_total_partial (every term sequence ends in a unit, KeyError or ParseError: the model's outcome type lists "
        "every way Unit.parse can end), C17_deterministic, C17_unknown_symbol (an unregistered symbol is a KeyError and nothing else). The registries are an argument of the "
        "model, never a result. Per run: kernel-checked transformer model = Unit.parse on structured term sequences over registered, prefixed, named and unknown symbols; "
        "on the implementation Unit.parse and Quantity.parse run (twice each, with the registered names/symbols compared before and after) on grammar-generated inputs, "
        "token-level damage, random strings and arbitrary Unicode, numerals and exponents beyond int()'s digit limit and the float range, mixed-base prefixes with huge "
        "exponents and rejected inputs whose earlier terms resolve through a prefix split. Text level: unit_parse_text / quantity_parse_text (Model/TextParse.v) compose scanner, LALR driver, tree reading and evaluation into Unit.parse / Quantity.parse from the characters on, including the embedded transformer's ordering (a KeyError from an already reduced term precedes a syntax error further right) and int()'s 4300-digit limit; C17_lexer_progress, C17_match_is_prefix; Run_textparse_* / Run_textq_*: the pipeline evaluated in the kernel equals the implementation (unit, magnitude type and integer value, or KeyError / ParseError) on structured and free-form texts.",
   note=TB + "Partial by nature: character-level totality (regex scanner, CPython's int()/float() limits, which exceptions callbacks can raise) is not a theorem; it is "
        "established by running the implementation. The LALR driver is the model of C16. Axioms: none.",
   tech="Rocq proof over the transformer model (case analysis) + vm_compute correspondence + exception-class fuzzing of the implementation", ref="DESIGN.md §4 C17"),
 "C18": dict(
   text="Theorems over the reals for every base b > 0 (b <> 1), prefix value p <> 0, power ratio k <> 0 and reference r > 0: C18_level_definition "
        "(level = (k/p) log_b(q/r)), C18_quantify_definition, C18_roundtrip_quantity, C18_roundtrip_level, C18_level_equals_quantity (a level equals a "
        "quantity iff it is that quantity's level), C18_monotone (b > 1, p > 0), C18_reference_unit_independent, C18_root_power. Tie A: the formulas of "
        "LogarithmicUnit.level, Level.quantify and power_ratio are re-derived from the source by a fail-closed ast translator on every run and Coq checks they "
        "are the modelled expression trees. Tie B: level values, quantify values, both round trips, level == quantity and monotonicity of the implementation "
        "against the closed form in 60-digit decimal arithmetic over bel/decibel/neper/octave, prefixed and custom-base logarithms, power and root-power "
        "references in mixed units.",
   note=TB + "Axioms (standard library reals): ClassicalDedekindReals.sig_not_dec, ClassicalDedekindReals.sig_forall_dec, "
        "FunctionalExtensionality.functional_extensionality_dep, Classical_Prop.classic. Rounding of math.log / ** is measured at 1e-9, not proved; the "
        "model cannot be evaluated in the kernel (transcendental functions), so tie B is a numerical comparison against the proved closed form.",
   tech="Rocq proof over R (ln/exp algebra) + source-to-expression translator checked by reflexivity; numerical comparison with the closed form", ref="DESIGN.md §4 C18"),
 "C19": dict(
   text="Registry machine (validate-then-mutate define/alias/derive/declare for units, prefixes, dimensions): Theorems C19_bound "
        "(faithfulness invariant over all operation sequences: a key is bound to o iff o reports it, hence never two objects), "
        "C19_step (a raising call changes nothing; a successful call binds and is reported, also for objects first created "
        "anonymously). Per run: the shipped registries satisfy the invariant (rinvb by vm_compute on regenerated data) and the "
        "machine reproduces the implementation's outcome and full registry diff after every call of random histories with "
        "failing calls in every argument position; module import orders compared.",
   note=TB + "Asynchronous exceptions between two mutation lines are out of scope. Axioms: none.",
   tech="Rocq proof: registry invariant + atomicity by case analysis; vm_compute correspondence on registry diffs", ref="DESIGN.md §4 C19"),
 "C20": dict(
   text="Theorem C20_locked: for any number of threads and every schedule at source-line granularity, the locked "
        "lookup/allocate/insert protocol returns one object to all threads, stores one entry, and later lookups return it; "
        "C20_unlocked_refuted exhibits the race without the lock. Tied to the code by an AST-derived obligation that each "
        "__new__ performs check-then-insert inside one `with _interning:` region, and by executing every preemption-bounded "
        "2-thread schedule and random 3-thread schedules on the real code with a sys.settrace scheduler. "
        "Theorem C20_program_safe: each interning __new__ (Dimension, Prefix, Unit, Logarithm, LogarithmicUnit) is translated at every run into an instruction program (Model/NewProg.v); every "
        "program accepted by the proved abstract interpretation prog_safe gives one object per key to any number of threads under "
        "every schedule; the three regenerated programs are accepted (Gen_newprog) and every observed line schedule of the direct "
        "constructor calls replays on the translated program in the kernel (same control flow, same sharing of objects).",
   note=TB + "Partial by nature: atomicity is the source line (as the property states); bytecode-level preemption, the GIL and "
        "free-threaded builds are not modelled. Axioms: none.",
   tech="Rocq proof: lock invariant over all interleavings; sound abstract interpretation of the translated constructor programs; kernel replay of observed schedules", ref="DESIGN.md §4 C20"),
 "C03": dict(
   text="Theorems over the quantity-dispatch model (Python's reflected-operator protocol, every dunder of Quantity/Unit/Prefix, "
        "functools.total_ordering): C03_mul_dims, C03_div_dims_partial (+ C03_refuted_rtruediv for number/quantity, a known finding), "
        "C03_pow_dims, C03_root_dims, C03_addsub_left_unit, C03_decimal_*, C03_incommensurable_{addsub,convert,eq,order} for all "
        "operands and every conversion oracle. Tied to the code by kernel-checked correspondence on the exhaustive operator x operand "
        "class x magnitude kind matrix (result class, unit triple, kind, value, exception class) and the property's own monitor.",
   note=TB + "Division theorem is partial: number/quantity keeps the unit in the code (pinned by its tests). Decimal context signals and "
        "complex roots are outside the exact model. Axioms: none.",
   tech="Rocq proof: case analysis over the operator-dispatch model + vm_compute correspondence on the operand matrix", ref="DESIGN.md §4 C03"),
 "C04": dict(
   text="Theorems over the conversion model (faithful Gallina model of conversions.py: ratio table, DFS path finder with exponent reduction, "
        "heuristic planner, plan application; every Python exception an explicit error value): C04_apply_plan_affine, C04_find_path_sound "
        "(every path found multiplies to size(start)/size(end), for every table consistent with a size assignment, every fuel, every visited set), "
        "C04_certified (a conversion whose plan passes the planner-independent certificate returns m*size(start)/size(end) exactly, prefixes included, "
        "for all tables, sizes, magnitudes), C04_refuted_uncertified (the uncertified statement is false of the model; witness replayed on the code). "
        "Per run: kernel-checked model=implementation on conversions of the shipped table (1e-11) and of fresh synthetic exactly-consistent unit systems "
        "(bit-exact, with the hypotheses of C04_certified discharged by vm_compute on the exported table), certificate bit and diagnosis per case, exact "
        "rational size oracle solved from the intercepted declarations. C04_true_declarations_consistent / C04_certified_over_declared_tables (Proofs/DeclareConsistent.v): any history of declarations true of one size assignment builds a consistent table, so the certificate theorem applies to every table such a history builds.",
   note=TB + "Partial: the planner itself is not proved to emit only certifiable plans (it does not: known findings planner-sign-heuristic, "
        "planner-uncertified, keyed by the Coq diagnosis of the model's plan, and the inconsistent ton-of-refrigeration edge). On the shipped float table "
        "consistency holds only within the residuals C09 bounds; rounding is measured at 1e-11 against the exact model. Axioms: none.",
   tech="Rocq proof: path-finder soundness by induction on fuel + plan certificate soundness over Q; vm_compute correspondence and certificate evaluation",
   ref="DESIGN.md §4 C04"),
 "C05": dict(
   text="Theorems C05_plan_independent_of_magnitude, C05_linear, C05_additive, C05_zero, C05_sign (for EVERY offset-free plan, whatever the planner did), "
        "C05_identity (own unit, any prefix, any table), C05_roundtrip and C05_route_independent (for certified conversions, all tables/sizes). "
        "Per run: every conversion compared with the model in the kernel; the five relations evaluated on the implementation for instances (a,b,c,m,k) "
        "on the shipped table and on synthetic exactly-consistent systems.",
   note=TB + "Round trip / route independence inherit C04's certificate hypothesis (same recorded planner findings). Float rounding measured "
        "(1e-12 linearity, 1e-5/degree shipped, 1e-12 synthetic). Axioms: none, except C05_roundtrip_over_declared_tables (round trip over every table a history of true "
        "declarations builds, rows registered by lookups included), which uses the standard library's functional_extensionality_dep.",
   tech="Rocq proof: affine form of plan application + corollaries of the certificate theorem; vm_compute correspondence", ref="DESIGN.md §4 C05"),
 "C07": dict(
   text="Theorem C07_only_cnf: for every table with non-zero ratios, every magnitude and every pair of units, the conversion model either succeeds or fails with "
        "ConversionNotFound -- never KeyError (_clean_pop, _clean_remove, _ratios[unit][alternative]), IndexError, ValueError (list.remove) or ZeroDivisionError "
        "(1/ratio, scale**negative); proved through invariants of the planner's dictionaries (unique keys, no empty lists, multiset counts of the pending replacements): "
        "C07_match_factors_never_raises, C07_rough_plan_errors, C07_find_path_errors. C07_eq_without_conversion / C07_order_without_conversion: == False, ordering "
        "TypeError when no conversion exists. Per run: the theorem's hypotheses are discharged by vm_compute on every exported table; regenerated obligation that "
        "conversions.py contains no assert; kernel-checked model = implementation including the exception class; python vs python -O differential on every case; "
        "disconnected, partially connected, zero-magnitude and long-chain systems.",
   note=TB + "The model's two non-Python error values remain possible outcomes of the theorem: EFuel (stands for RecursionError / non-termination; the budget is never "
        "exhausted in the runs) and EMissing (incomplete harness export). RecursionError itself (interpreter stack) is outside the fuelled model. Axioms: none.",
   tech="Rocq proof: invariants of the planner's dictionaries by induction over its loops + error-class analysis of the path finder; vm_compute correspondence; -O differential", ref="DESIGN.md §4 C07"),
 "C06": dict(
   text="Theorems C06_mul/div/pow (unconditional) and C06_addsub/eq/lt/conversion_preserves_value (for every conversion oracle sound "
        "for the sizes): the value magnitude*prefix*size of every result is the operation on the operands' values, for all sizes, "
        "units and magnitudes. Correspondence: dispatch model vs implementation on re-expressed operand pairs, and SI values of "
        "results against an exact rational oracle solved from the intercepted declarations.",
   note=TB + "+ - == < are conditional on conversion soundness (C04). Float rounding is measured at 1e-9, not proved; near-ties excluded. Axioms: none.",
   tech="Rocq proof: homomorphism of the value function over Q (field) + vm_compute correspondence", ref="DESIGN.md §4 C06"),
 "C09": dict(
   text="Theorems C09_chain_telescope, C09_chain_bound (every chain of declared edges that uses each table edge at most once equals the size ratio of its end "
        "points within the product of the per-edge bounds of its component), C09_chains_agree (a declared edge against every other such chain), "
        "C09_edges_within_bounded / C09_slack_is_product (the reflective check establishes the hypotheses). Per run, on the declarations intercepted from the "
        "shipped modules: edges_ok and slack_ok by vm_compute for every connected component of the declaration graph (every directed table entry within its "
        "bound of a size certificate re-checked in the kernel; total slack <= 1e-5 x degree), every declaration still in the table (no overwrite), and "
        "all_named_reach_si: the planner model converts every named physical unit to and from the coherent SI unit on the regenerated table; the same "
        "conversions run on the implementation against the model and the exact oracle. Gen_reciprocal: the exported _ratios/_offsets satisfy the declaration invariants "
        "(reciprocal ratios, opposite offsets) that C08_declarations_keep_table_reciprocal / C10_history_tables prove of every history.",
   note=TB + "The certificate solver is untrusted (its output is re-checked). Known findings: the two ton-of-refrigeration declarations disagree by 6.7e-4 "
        "(pinned by tests), units routed through that edge, donkeypower does not reach SI. Dimensionless named units are outside the reach-SI clause. Axioms: none.",
   tech="Rocq proof: telescoping chain bound (induction, NoDup product lemma) + reflective vm_compute on the regenerated declarations", ref="DESIGN.md §4 C09"),
 "C10": dict(
   text="Theorems C10_plan_affine / C10_convert_affine (convert is an affine map of the magnitude for every plan, offsets included), C10_affine_case (a finite "
        "kernel check of a plan's two coefficients lifts to every magnitude), C10_differences_scale, C10_roundtrip_exact, C10_order_preserved. Per run: the "
        "temperature graph is regenerated from the source and Lemma temperature_affine is discharged by vm_compute for all 16 ordered pairs of {K, degC, degF, R} x "
        "(no prefix + every registered prefix)^2: each plan is the ideal affine map of the exact decimal definitions within 2^-48; the same grid plus "
        "int/float/Decimal magnitudes (below absolute zero included) and cross-scale comparisons run on the implementation against the model (kernel) and the closed form. "
        "C10_history_tables / C10_translated_pair_roundtrip: after any history of equate and translate declarations stored ratios are reciprocal and stored offsets opposite; "
        "per run Gen_trshape reads translate's four assignments off the source (C10_source_stores_are_model_translate).",
   note=TB + "The prefix family is the registered prefixes (finite, exhaustive), not arbitrary Prefix(b, e). Float rounding of the implementation is measured "
        "(1e-11 against the exact model with an absolute reference for cancelling terms). Axioms: none.",
   tech="Rocq proof: affine form of plan application + reflective vm_compute check on the regenerated temperature graph", ref="DESIGN.md §4 C10"),
 "C13": dict(
   text="Theorems at term level (symbol text + integer exponent): C13_parse_print (for every well-formed unit with canonical prefix: if the printer pushed the prefix into the "
        "first factor and every printed piece resolves to the unit it was printed from, then parsing the printed terms -- resolve, raise to the exponent, multiply left "
        "to right -- returns exactly the original unit: same prefix, factors and dimension, hence the same interned object), C13_prefix_pushdown, C13_superscript_digit, "
        "C13_divide_is_negative_exponent. Per run, on the symbol tables exported from the implementation: the collision sweep over EVERY prefix symbol x EVERY unit symbol "
        "and every registered name evaluated in the kernel; kernel-checked model = implementation for Unit.resolve_symbol (whole grid + names), for the text of str(unit) "
        "(rendered in Coq, superscripts included) and for Unit.parse(str(unit)) over every named unit x every prefix x exponents and random products; quantities and "
        "alternative spellings evaluated on the implementation. Text level: Run_print_*.text_level_agrees -- the text the model's printer writes, scanned and parsed by the character-level parser model, gives back exactly the printed term list for every unit of the run; C13_text_roundtrip_is_term_roundtrip lifts C13_parse_print to Unit.parse(str(u)). C13_superscript_reads_back: the printed exponent reads back as the same integer, for every integer. Gen_purity: printing mutates nothing it is given.",
   note=TB + "The string <-> term step (lexing; juxtaposition vs explicit operators) is covered by correspondence and by C16, not by a theorem. Known finding classes: "
        "leading magnitude, prefix without symbol, seven prefix+symbol collisions (kg is the deliberate equal mapping). Mixed-base prefixes are outside the exact model. Axioms: none.",
   tech="Rocq proof: parse-of-print over the unit algebra (induction over the term list, uwf invariant) + reflective vm_compute sweep of the exported symbol tables + kernel-checked correspondence",
   ref="DESIGN.md §4 C13"),
 "C14": dict(
   text="Theorems C14_add/sub/mul/div/pow: the uncertainty formulas of Measurement equal sqrt((df/dx sx)^2+(df/dy sy)^2) with the partial derivatives taken by "
        "Coquelicot's Derive, over the reals, for all measurands (zero included for + - *), all sigmas and every non-zero integer exponent; C14_pow_closed_form, "
        "C14_nonneg, C14_plain_quantity_*. Tie A: a fail-closed ast translator re-derives the radicand expression trees from Measurement.__add__/__sub__/__mul__/"
        "__truediv__/_join_uncertainties/__pow__ on every run and Coq checks they are the trees the theorems are about. Tie B: measurand and squared uncertainty "
        "of the implementation vs the model in the kernel (exact rationals, 1e-9) over signed, zero and Decimal operands in mixed units. Zero measurands of every numeric type under every positive power (the Decimal(0)**0 defect repaired by 5a5eb95); operands on temperature scales: same-zero pairs are right, different zero points are the recorded finding uncertainty:offset-scales.",
   note=TB + "Axioms (standard library reals, via Reals/Coquelicot): ClassicalDedekindReals.sig_not_dec, ClassicalDedekindReals.sig_forall_dec, "
        "FunctionalExtensionality.functional_extensionality_dep, Classical_Prop.classic. math.sqrt and float products are measured, not proved. "
        "Unit independence of the result rests on quantity arithmetic (C06).",
   tech="Rocq proof over R with Coquelicot derivatives + source-to-expression translator + vm_compute correspondence on squares", ref="DESIGN.md §4 C14"),
 "C11": dict(
   text="Theorems C11_prefix_mul/div/pow/root (exact values of same-base prefix arithmetic), C11_prefixed_quantity, "
        "C11_power_distributes (normal-form equality), C11_divide_by_prefixed, C11_unprefixed. Correspondence: prefix-heavy operator "
        "cases vs the dispatch model; the property's relations evaluated on the implementation over the exhaustive prefix x exponent grid; "
        "mixed SI/IEC at 1e-9.",
   note=TB + "Mixed-base prefixes carry float exponents: numerical check at 1e-9 as the property allows, plus exact theorems over R (C11_mixed_base_mul/div/pow). Axioms: none for the exact theorems; the mixed-base theorems use the standard library reals (ClassicalDedekindReals.sig_not_dec, sig_forall_dec, functional_extensionality_dep, Classical_Prop.classic).",
   tech="Rocq proof: Qpower algebra of prefix values + vm_compute correspondence", ref="DESIGN.md §4 C11"),
 "C12": dict(
   text="Theorems C12_eq_reflexive, C12_eq_symmetric, C12_trichotomy, C12_le_ge_mirror (total_ordering's derivations modelled literally), "
        "C12_sorted_physically, C12_measurement_eq_symmetric (+ C12_refuted_old_measurement_eq), C12_hash_refuted / C12_hash_partial (the "
        "hash clause is false of the code: known finding). Correspondence: full truth tables in both argument orders vs the model, hash, "
        "and the symmetric interval model vs Measurement == on sampled pairs.",
   note=TB + "Order laws conditional on sound conversions; hash clause refuted (known finding). Axioms: none.",
   tech="Rocq proof: order laws from value semantics over Q + vm_compute truth-table correspondence", ref="DESIGN.md §4 C12"),
}
NA = {}
def main():
    props = [json.loads(l)["id"] for l in open(os.path.join(ROOT, "properties.jsonl"))]
    checks = []
    for pid in props:
        if pid in CHECKS and os.path.exists(os.path.join(ROOT, "harness", pid.lower() + ".py")):
            c = CHECKS[pid]
            checks.append({
                "property_id": pid,
                "quick_cmd": f"./check {pid} --tier quick",
                "thorough_cmd": f"./check {pid} --tier thorough",
                "evidence_file": f"/verif/evidence/{pid}.json",
                "replay_cmd_template": "cat {path}",
                "engine": "rocq",
                "level_claimed": {"category": c.get("cat", "proof"), "text": c["text"], "design_ref": c["ref"]},
                "level_note": c["note"],
                "technique": c["tech"],
            })
    na = [{"property_id": p, "reason": NA.get(p, "check not built yet in this session (work in progress; see DESIGN.md §4)")}
          for p in props if p not in {c["property_id"] for c in checks}]
    m = {
        "version": 1,
        "setup_cmd": "./setup.sh",
        "hooks": {"guard": "MEASURED_VERIF",
                  "enable": "no source hooks: checks observe the package through public attributes, wrapping of module attributes before import, and sys.settrace; MEASURED_VERIF=1 is exported for completeness",
                  "baseline_off_cmd": "python3 harness/baseline.py",
                  "source_commits": [], "add_only": True},
        "engines": [{"name": "rocq", "path": "/verif/coq", "serves_properties": [c["property_id"] for c in checks],
                     "kind_free_text": "Coq 8.16.1 development (Model/, Proofs/, Props/) + per-run generated Gen_*/Run_* files compiled by the harness in /verif/.work/<id>"}],
        "checks": checks,
        "notes": "Every check: ./check Cnn [--tier quick|thorough]; rebuilds the static Coq library if needed, regenerates data from /repo, runs the implementation, compiles per-run obligations, writes evidence/Cnn.json.",
        "not_applicable": na,
    }
    json.dump(m, open(os.path.join(ROOT, "MANIFEST.json"), "w"), indent=1)
    print(len(checks), "checks;", len(na), "not yet claimed")
main()
