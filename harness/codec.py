"""C15 tie for the JSON codec model (coq/Model/Codec.v): the exported registry satisfies the hypotheses of
C15_json_unit_roundtrip_checked; the documents Unit.__json__ writes are the model's enc_unit; the library's decoder
and the model's dec_unit agree on those documents and on mutated ones."""
import ast, copy
from common import *

class OutOfModel(Exception): pass

KEYS = {"__measured__": "KTag", "name": "KName", "dimension": "KDim", "prefix": "KPrefix", "factors": "KFactors", "base": "KBase",
        "exponent": "KExp", "exponents": "KExps"}
TAGS = {"Dimension": "TDimension", "Prefix": "TPrefix", "Unit": "TUnit"}

def jterm(doc, names, ctx=None):
    """fail-closed conversion of a JSON value to a Model/Codec.v term"""
    if doc is None: return "JNull"
    if isinstance(doc, bool): raise OutOfModel("bool")
    if isinstance(doc, int): return f"(JInt {cZ(doc)})"
    if isinstance(doc, float): raise OutOfModel("float")
    if isinstance(doc, str): raise OutOfModel("bare string")
    if isinstance(doc, list): return "(JArr " + clist(jterm(x, names) for x in doc) + ")"
    if isinstance(doc, dict):
        tag = doc.get("__measured__")
        fs = []
        for k, v in doc.items():
            if k == "symbol": continue                                       # read by no decoder (checked by decoder_keys)
            if k == "name" and tag in ("Dimension", "Prefix"): continue      # idem
            if k not in KEYS: raise OutOfModel("key " + k)
            if k == "__measured__":
                if v not in TAGS: raise OutOfModel("tag " + str(v))
                fs.append(f"(KTag, JTag {TAGS[v]})")
            elif k == "name":
                if v is None: fs.append("(KName, JNull)")
                elif isinstance(v, str): fs.append(f"(KName, JName {cpos(names.setdefault(v, len(names) + 1))})")
                else: raise OutOfModel("name type")
            else:
                fs.append(f"({KEYS[k]}, {jterm(v, names)})")
        return "(JObj " + clist(fs) + ")"
    raise OutOfModel(type(doc).__name__)

def decoder_keys():
    """the keys each __from_json__ reads from json_object (translator, fail-closed on other access forms)"""
    tree = ast.parse(open(os.path.join(REPO, "src/measured/__init__.py")).read())
    out = {}
    for cls in tree.body:
        if isinstance(cls, ast.ClassDef) and cls.name in ("Dimension", "Prefix", "Unit"):
            for fn in cls.body:
                if isinstance(fn, ast.FunctionDef) and fn.name == "__from_json__":
                    keys = set()
                    for n in ast.walk(fn):
                        if isinstance(n, ast.Name) and n.id == "json_object":
                            pass
                        if isinstance(n, ast.Subscript) and isinstance(n.value, ast.Name) and n.value.id == "json_object":
                            if not (isinstance(n.slice, ast.Constant) and isinstance(n.slice.value, str)): raise ValueError("computed key")
                            keys.add(n.slice.value)
                        if isinstance(n, ast.Call) and isinstance(n.func, ast.Attribute) and isinstance(n.func.value, ast.Name) and n.func.value.id == "json_object":
                            raise ValueError("json_object." + n.func.attr)
                    out[cls.name] = sorted(keys)
    return out

def setstate_guards():
    """per class: does __setstate__ return before writing any slot when the object is already initialised?  (translator for the
    `guarded` flag of Model/Codec.v pload; fail-closed: anything but the known shape is reported as unguarded)"""
    tree = ast.parse(open(os.path.join(REPO, "src/measured/__init__.py")).read())
    out = {}
    for cls in tree.body:
        if isinstance(cls, ast.ClassDef) and cls.name in ("Dimension", "Prefix", "Unit"):
            out[cls.name] = False
            for fn in cls.body:
                if isinstance(fn, ast.FunctionDef) and fn.name == "__setstate__":
                    body = [st for st in fn.body if not (isinstance(st, ast.Expr) and isinstance(st.value, ast.Constant))]
                    first = body[0] if body else None
                    out[cls.name] = (isinstance(first, ast.If) and ast.unparse(first.test) in ("getattr(self, '_initialized', False)", "self._initialized")
                                     and len(first.body) == 1 and isinstance(first.body[0], ast.Return) and first.body[0].value is None and not first.orelse)
    return out

def mutate(rng, doc, table, names_in_use):
    """documents near the written ones: (label, doc)"""
    out = []
    if doc.get("factors"):
        d = copy.deepcopy(doc); d["factors"] = list(reversed(d["factors"])); out.append(("reversed-factors", d))
        d = copy.deepcopy(doc); del d["prefix"]; out.append(("no-prefix-key", d))
        d = copy.deepcopy(doc); d["dimension"]["exponents"] = [1] + d["dimension"]["exponents"][1:]; out.append(("other-dimension", d))
        d = copy.deepcopy(doc); d["prefix"] = {"__measured__": "Prefix", "base": 10, "exponent": rng.choice([7, -5, 11]), "name": None, "symbol": None}; out.append(("other-prefix", d))
        d = copy.deepcopy(doc); d["prefix"] = {"__measured__": "Prefix", "base": 10, "exponent": 0, "name": None, "symbol": None}; out.append(("zero-exponent-prefix", d))
        d = copy.deepcopy(doc); d["factors"][0][1] = d["factors"][0][1] + rng.choice([1, 2, 5]); 
        if d["factors"][0][1] != 0: out.append(("other-exponent", d))
        d = copy.deepcopy(doc); d["factors"][0][0]["name"] = "no such unit"; out.append(("unknown-factor-name", d))
        d = copy.deepcopy(doc); d["factors"][0][0]["name"] = rng.choice(names_in_use); out.append(("other-factor", d))
        d = copy.deepcopy(doc); del d["dimension"]; out.append(("no-dimension-key", d))
    else:
        d = copy.deepcopy(doc); d["name"] = "no such unit"; out.append(("unknown-name", d))
        d = copy.deepcopy(doc); d["name"] = None; out.append(("null-name", d))
        d = copy.deepcopy(doc); d["factors"] = []; out.append(("empty-factors", d))
        d = copy.deepcopy(doc); del d["factors"]; out.append(("no-factors-key", d))
        d = copy.deepcopy(doc); d["name"] = rng.choice(names_in_use); out.append(("other-name", d))
    return out

def run(c, rng, build, nmut):
    dk = decoder_keys()
    want = {"Dimension": ["exponents"], "Prefix": ["base", "exponent"], "Unit": ["dimension", "factors", "name", "prefix"]}
    c.oblige(f"translator: keys read by the __from_json__ methods are {want} (the model documents carry exactly these; 'symbol' and the "
             "names of dimensions and prefixes are read by no decoder)", dk == want, json.dumps(dk))
    sg = setstate_guards()
    c.oblige("translator: Dimension/Prefix/Unit.__setstate__ leave an initialised object alone (the `guarded = true` instance of pload, "
             "C15_pickle_roundtrip / C15_stale_pickle_keeps_names)", all(sg.get(k) for k in ("Dimension", "Prefix", "Unit")), json.dumps(sg))
    r0 = impl("codec_worker.py", {"build": build, "decode": []})
    rows = r0["table"]
    # representable rows (exact prefixes); handles are positions among them
    keep = [i for i, u in enumerate(rows) if not isinstance(u["p"], dict)]
    hmap = {i: k for k, i in enumerate(keep)}
    names = {}
    for n in sorted(r0["by_name"]): names[n] = len(names) + 1
    tbl = [cunit3(rows[i]) for i in keep]
    byname = [f"({cpos(names[n])}, {cnat(hmap[h])})" for n, h in sorted(r0["by_name"].items()) if h in hmap]
    nameof = []
    for i in keep:
        u = rows[i]
        if u["p"] == [0, 0] and len(u["f"]) == 1 and u["f"][0][1] == 1 and u["name"] is not None:
            nameof.append(f"({cpos(u['f'][0][0])}, {cpos(names[u['name']])})")
    one = cpos(names[r0["one_name"]])
    cnames = []
    for i in keep:
        u = rows[i]
        leaf = u["p"] == [0, 0] and ((len(u["f"]) == 1 and u["f"][0][1] == 1) or u["is_one"])
        if not leaf and u["name"] is not None:
            cnames.append(f"({cpos(hmap[i] + 1)}, {cpos(names[u['name']])})")
    regdef = (HEADER + "From Coq Require Import List.\nFrom Measured Require Import Model.Codec Proofs.CodecFacts.\nImport ListNotations.\n"
              f"Definition tbl0 : table := {clist(tbl)}.\n"
              f"Definition reg0 : creg := MkCR tbl0 {clist(byname)} {clist(nameof)} {one} {cnat(r0['nd'])} {clist(cnames)}.\n"
              "Definition with_extra (x : list unit3) : creg := MkCR (tbl0 ++ x) (c_byname reg0) (c_nameof reg0) (c_one reg0) (c_nd reg0) (c_cnames reg0).\n")
    files = {"Gen_codec_registry": regdef + "Lemma registry_ok : registry_okb reg0 = true.\nProof. vm_compute. reflexivity. Qed.\n"}
    # ---- encoder correspondence: every representable stored unit, both forms of the document
    enc_cases, skipped = [], 0
    for i in keep:
        if rows[i].get("doc_plain_error"):
            c.violation("unit:plain-dict-not-json", f"Unit.__json__() of a registered unit holds a value a plain JSON serialiser (pydantic's, the SQL form) cannot write: {rows[i]['doc_plain_error']}",
                        {"unit": {k: rows[i][k] for k in ("p", "f", "d", "name")}, "how": "json.dumps(unit.__json__()) without the library's encoder"})
    for i in keep:
        for form in ("doc", "doc_plain"):
            if rows[i].get(form) is None: continue
            try:
                enc_cases.append(f"({cnat(hmap[i])}, {jterm(rows[i][form], names)})")
            except OutOfModel:
                skipped += 1
    shard = 400
    for k in range(0, len(enc_cases), shard):
        files[f"Run_codec_enc_{k // shard}"] = (regdef +
            f"Definition cases : list (nat * json) := {clist(enc_cases[k:k + shard])}.\n"
            "Definition ok (c : nat * json) : bool := match nth_error tbl0 (fst c) with Some x => json_eqb (jnorm (enc_unit reg0 x)) (jnorm (snd c)) | None => false end.\n"
            "Definition mm := Eval vm_compute in map fst (filter (fun c => negb (ok c)) cases).\nPrint mm.\n"
            "Lemma run_agrees : mm = [].\nProof. vm_compute. reflexivity. Qed.\n")
    # ---- decoder correspondence: the written documents, then mutated ones (new units extend the table in order)
    docs = [("written", rows[i]["doc"]) for i in keep]
    names_in_use = [n for n, h in sorted(r0["by_name"].items()) if h in hmap]
    pool = [rows[i]["doc"] for i in keep]
    for _ in range(nmut):
        docs += mutate(rng, rng.choice(pool), rows, names_in_use)
    r1 = impl("codec_worker.py", {"build": build, "decode": [d for _, d in docs]})
    same_registry = [u["o"] for u in r1["table"]] == [u["o"] for u in rows] and [(u["p"], u["f"]) for u in r1["table"]] == [(u["p"], u["f"]) for u in rows]
    c.oblige("the registry is the same in the dump and the decode process (deterministic construction order)", same_registry, "")
    dec_cases, kinds, extra, meta = [], {}, [], []
    for (label, doc), res in zip(docs, r1["results"]):
        kinds[label] = kinds.get(label, 0) + 1
        try:
            term = jterm(doc, names)
            if "err" in res:
                exp = "XKeyError" if res["err"] == "KeyError" else "XOtherError"
            elif "new" in res:
                if isinstance(res["new"]["p"], dict): raise OutOfModel("mixed new unit")
                exp = f"(XNew {cunit3(res['new'])})"
            elif "h" in res:
                if res["h"] < len(rows):
                    if res["h"] not in hmap: raise OutOfModel("mixed-base unit")
                    exp = f"(XHandle {cnat(hmap[res['h']])})"
                else:
                    exp = f"(XHandle {cnat(len(keep) + (res['h'] - len(rows)))})"
            else: raise OutOfModel("non-unit result")
            dec_cases.append(f"({cnat(len(extra))}, {term}, {exp})"); meta.append((label, doc, res))
        except OutOfModel:
            skipped += 1
        if "new" in res and not isinstance(res["new"]["p"], dict):
            extra = extra + [cunit3(res["new"])]
        elif "new" in res:
            extra = extra + ["uone"]     # placeholder keeping later handles aligned; cases touching it are out of model
    shard = 250
    for k in range(0, len(dec_cases), shard):
        files[f"Run_codec_dec_{k // shard}"] = (regdef +
            "Inductive expected := XHandle (h : nat) | XNew (u : unit3) | XKeyError | XOtherError.\n"
            "Definition unit_eqb (a b : unit3) : bool := ukey_eqb a b && feqb (udim a) (udim b).\n"
            f"Definition extra_all : list unit3 := {clist(extra)}.\n"
            "Definition ok (c : nat * json * expected) : bool :=\n"
            "  let '(k, doc, e) := c in let r := with_extra (firstn k extra_all) in\n"
            "  match dec_unit r doc, e with\n"
            "  | DOk (t, h), XHandle h' => Nat.eqb h h' && Nat.eqb (length t) (length (c_tbl r))\n"
            "  | DOk (t, h), XNew u => Nat.eqb h (length (c_tbl r)) && match nth_error t h with Some v => unit_eqb u v | None => false end\n"
            "  | DKeyError, XKeyError => true\n"
            "  | DOutOfModel, _ => true\n"
            "  | _, _ => false end.\n"
            "Definition modelled (c : nat * json * expected) : bool := let '(k, doc, e) := c in match dec_unit (with_extra (firstn k extra_all)) doc with DOutOfModel => false | _ => true end.\n"
            f"Definition cases : list (nat * json * expected) := {clist(dec_cases[k:k + shard])}.\n"
            "Definition mm := Eval vm_compute in map fst (filter (fun ic => negb (ok (snd ic))) (combine (seq 0 (length cases)) cases)).\nPrint mm.\n"
            "Definition nmodelled := Eval vm_compute in length (filter modelled cases).\nPrint nmodelled.\n"
            "Lemma run_agrees : mm = [].\nProof. vm_compute. reflexivity. Qed.\n")
    out = c.run_coq(files)
    ok, log = out["Gen_codec_registry"]
    c.oblige(f"Gen_codec_registry.registry_ok (hypotheses of C15_json_unit_roundtrip_checked on the exported registry: {len(keep)} units, unique keys, faithful names, stored factors, canonical prefixes)", ok, log[-800:])
    modelled = 0
    for name, (ok, log) in sorted(out.items()):
        if name.startswith("Run_codec_enc_"):
            c.oblige(f"{name}.run_agrees (Unit.__json__ documents = enc_unit of the model, up to factor order)", ok, log[-800:])
        if name.startswith("Run_codec_dec_"):
            k = int(name.rsplit("_", 1)[1])
            mm = re.search(r"mm =\s*(\[[^\]]*\])", log, re.S)
            bad = [int(t) for t in re.findall(r"\d+", mm.group(1))] if mm else []
            nm = re.search(r"nmodelled =\s*(\d+)", log)
            modelled += int(nm.group(1)) if nm else 0
            c.oblige(f"{name}.run_agrees (the library's decoder = dec_unit of the model on written and mutated documents)", ok, log[-800:])
            for j in bad[:3]:
                label, doc, res = meta[k * shard + j]
                c.cov.setdefault("codec_mismatches", []).append({"mutation": label, "document": doc, "implementation": res})
    for (label, doc), res in zip(docs, r1["results"]):
        c.count(["codec-decode", label, json.dumps(doc, sort_keys=True)[:400]], nontrivial=(label != "written"))
    c.cov["codec"] = {"registry_units": len(keep), "encoder_documents": len(enc_cases), "decoder_documents": len(dec_cases), "decided_by_model": modelled,
                      "outside_model": skipped, "mutation_kinds": kinds}
