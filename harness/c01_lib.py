from common import *
import unitgen as G

def shard_file(env, hists):
    cases = clist(clist(items) for items in hists)
    return HEADER + f"""
Definition the_env : env := {G.coq_env(env)}.
Definition cases : list (list (op * outcome)) := {cases}.
Lemma run_agrees : mismatches (check_history the_env) cases = [].
Proof. vm_compute. reflexivity. Qed.
"""

def diag_file(env, hists):
    cases = clist(clist(items) for items in hists)
    return HEADER + f"""
Definition the_env : env := {G.coq_env(env)}.
Definition cases : list (list (op * outcome)) := {cases}.
Eval vm_compute in mismatches (check_history the_env) cases.
"""

