"""C14 — uncertainty propagates by first-order Gaussian rules for independent inputs."""
import sys, os
sys.path.insert(0, os.path.dirname(os.path.abspath(__file__)))
from common import *
import sizes, formulas

MHEADER = """From Coq Require Import ZArith QArith List.
From Measured Require Import Model.Measure Model.Check.
Import ListNotations.
"""
FAM = {"L": [[[None, "meter", 1]], [["kilo", "meter", 1]], [["milli", "meter", 1]], [[None, "foot", 1]], [[None, "inch", 1]], [[None, "hand", 1]], [[None, "mile", 1]],
             [[None, "yard", 1]], [[None, "fathom", 1]]],
       "T": [[[None, "second", 1]], [[None, "minute", 1]], [["milli", "second", 1]], [[None, "hour", 1]]],
       "M": [[[None, "gram", 1]], [["kilo", "gram", 1]], [[None, "pound", 1]]],
       "A": [[[None, "degree", 1]], [[None, "radian", 1]], [[None, "arcminute", 1]]],
       "V": [[[None, "meter", 1], [None, "second", -1]], [["kilo", "meter", 1], [None, "hour", -1]], [[None, "foot", 1], [None, "second", -1]]],
       # named units of derived dimensions in the denominator (distance per volume, mass per area): + and - convert the SQUARE of the other unit
       "FE": [[[None, "mile", 1], [None, "gallon", -1]], [["kilo", "meter", 1], [None, "liter", -1]]],
       "AD": [[[None, "pound", 1], [None, "acre", -1]], [["kilo", "gram", 1], [None, "hectare", -1]]]}

def frac(n): return Fraction(int(n[1]), int(n[2]))

def num(rng, kinds, allow_zero=True, positive=False):
    k = rng.choice(kinds)
    if k == "int":
        v = rng.choice([0] * (1 if allow_zero else 0) + [1, 2, 3, -4, 7, 10, -12, 250, rng.randint(-999, 999)])
        if positive: v = abs(v)
        if not allow_zero and v == 0: v = 5
        return ["int", str(v), "1"]
    if k == "float":
        x = rng.choice([0.0] * (1 if allow_zero else 0) + [0.5, 1.25, -2.5, 3.75, 0.1, 12.7, -0.3, rng.uniform(-50, 50), rng.lognormvariate(0, 2)])
        if positive: x = abs(x)
        if not allow_zero and x == 0: x = 0.75
        n, d = float(x).as_integer_ratio(); return ["float", str(n), str(d)]
    f = Fraction(rng.randint(-9999, 9999), 10 ** rng.randint(0, 3))
    if positive: f = abs(f)
    if f == 0 and not allow_zero: f = Fraction(7, 4)
    return ["dec", str(f.numerator), str(f.denominator)]

def gen_operand(rng, fam, kinds, plain_ok=True):
    u = rng.choice(FAM[fam])
    if plain_ok and rng.random() < 0.2:
        return {"t": "qty", "m": num(rng, kinds), "u": u}
    kind = rng.choice(kinds)
    return {"t": "meas", "m": num(rng, [kind]), "s": num(rng, [kind], positive=True), "u": u}

def main():
    c = Check("C14")
    c.static_theorems()
    rng = c.rng
    quick = c.tier == "quick"
    # ---------------- tie A: the radicands re-derived from the source are the ones the theorems are about
    try:
        gen = formulas.coq(formulas.translate())
        out = c.run_coq({"Gen_formulas": gen})
        ok, log = out["Gen_formulas"]
        c.oblige("Gen_formulas.gen_*_is_model (the radicands of Measurement.__add__/__sub__/__mul__/__truediv__/__pow__ translated from the source are the modelled ones)", ok, log[-800:])
    except formulas.Untranslatable as ex:
        c.oblige("Gen_formulas (translator over the source of Measurement)", False, f"untranslatable: {ex}")
    # ---------------- tie B / monitor
    exp0 = impl("export_worker.py", {})
    S = sizes.Sizes(exp0)
    n = 700 if quick else 10000
    cases = []
    for _ in range(n):
        op = rng.choice(["add", "sub", "mul", "div", "pow", "mul", "div"])
        kinds = rng.choice([("int", "float"), ("int", "float"), ("dec",), ("float",), ("dec", "float"), ("dec", "int")])
        fam = rng.choice(list(FAM))
        l = gen_operand(rng, fam, kinds)
        if op == "pow":
            l = gen_operand(rng, fam, kinds, plain_ok=False)
            e = rng.choice([-4, -3, -2, -1, 0, 1, 2, 3, 4])
            if e <= 0 and frac(l["m"]) == 0: l["m"] = ["int", "3", "1"] if kinds[0] != "dec" else ["dec", "3", "1"]
            cases.append({"op": "pow", "l": l, "r": e}); continue
        r = gen_operand(rng, fam if op in ("add", "sub") else rng.choice(list(FAM)), kinds)
        if l["t"] == "qty" and r["t"] == "qty": l = dict(l, t="meas", s=num(rng, [l["m"][0]], positive=True))
        if op == "div" and frac(r["m"]) == 0: r["m"] = [r["m"][0], "3", "2"] if r["m"][0] != "int" else ["int", "2", "1"]
        cases.append({"op": op, "l": l, "r": r})
    # zero measurands, negative values, plain quantity on the left
    for op in ("mul", "div", "add", "sub"):
        for lz, rz in ((True, False), (False, True), (True, True)):
            if op == "div" and rz: continue
            l = {"t": "meas", "m": ["int", "0", "1"] if lz else ["float", "-5", "2"], "s": ["float", "1", "4"], "u": FAM["L"][1]}
            r = {"t": "meas", "m": ["int", "0", "1"] if rz else ["int", "4", "1"], "s": ["float", "1", "8"], "u": FAM["L"][0] if op in ("add", "sub") else FAM["T"][1]}
            cases.append({"op": op, "l": l, "r": r})
        cases.append({"op": op, "l": {"t": "qty", "m": ["float", "7", "2"], "u": FAM["L"][3]}, "r": {"t": "meas", "m": ["int", "3", "1"], "s": ["float", "1", "4"], "u": FAM["L"][0] if op in ("add", "sub") else FAM["M"][0]}})
    # zero measurands of every numeric type under every positive power (the slope n*x**(n-1) needs x**0 = 1 at n = 1), and in products
    for kind in ("int", "float", "dec"):
        z = [kind, "0", "1"]; sgm = [kind, "1", "2"] if kind != "int" else ["int", "1", "1"]
        for e in (1, 2, 3, 4):
            cases.append({"op": "pow", "l": {"t": "meas", "m": z, "s": sgm, "u": FAM["L"][0]}, "r": e})
        for op in ("mul", "add", "sub"):
            cases.append({"op": op, "l": {"t": "meas", "m": z, "s": sgm, "u": FAM["L"][0]}, "r": {"t": "meas", "m": [kind, "3", "1"], "s": sgm, "u": FAM["L"][1] if op != "mul" else FAM["T"][0]}})
    recs = impl("meas_worker.py", {"cases": cases})["results"]
    terms, keep = [], []
    stats = {"formula_checked": 0, "raised": 0}
    MOP = {"add": "MAdd", "sub": "MSub", "mul": "MMul", "div": "MDiv"}
    for i, (cs, rec) in enumerate(zip(cases, recs)):
        res = rec["res"]
        c.count(cs, nontrivial=(cs["op"] == "pow" or cs["l"]["u"] != cs["r"]["u"] or True))
        repl = {"case": cs, "implementation": res}
        if "err" in res:
            stats["raised"] += 1
            c.violation(f"raises:{cs['op']}:{res['err']}", f"{cs['op']} on measurements raised {res['err']}: {res.get('msg')}", repl); continue
        if res.get("t") != "meas":
            c.violation("not-a-measurement", f"{cs['op']} returned {res.get('t')}", repl); continue
        lc, rc = rec["lc"], rec.get("rc")
        x = frac(lc["m"]); sx = frac(lc["s"]) if lc["t"] == "meas" else Fraction(0)
        if cs["op"] == "pow":
            y = sy = Fraction(0); e = cs["r"]
            want_val = x ** e if not (x == 0 and e < 0) else None
            want_sq = (e * x ** (e - 1) * sx) ** 2 if e != 0 else Fraction(0)
            mop = f"(MPow {cZ(e)})"
        else:
            y = frac(rc["m"]); sy = frac(rc["s"]) if rc["t"] == "meas" else Fraction(0)
            if cs["op"] in ("add", "sub"):
                # the result is in one of the operands' units (the Measurement's for quantity + measurement): work in that unit
                rl, rr = S.ratio(lc["u"], res["u"]), S.ratio(rc["u"], res["u"])
                if rl is None or rr is None: continue
                x *= rl; sx *= rl; y *= rr; sy *= rr
            want_val = {"add": x + y, "sub": x - y, "mul": x * y, "div": (x / y if y else None)}[cs["op"]]
            want_sq = {"add": sx**2 + sy**2, "sub": sx**2 + sy**2, "mul": (y * sx)**2 + (x * sy)**2,
                       "div": ((sx / y)**2 + (x / y / y * sy)**2) if y else None}[cs["op"]]
            mop = MOP[cs["op"]]
        if want_val is None or len(res["m"]) != 3 or len(res["s"]) != 3: continue
        got_val, got_s = frac(res["m"]), frac(res["s"])
        stats["formula_checked"] += 1
        tol = Fraction(1, 10**9)
        if got_s < 0:
            c.violation("negative-uncertainty", f"uncertainty {float(got_s)}", repl)
        # sums and differences are judged at the scale of their operands (x - x of two equal prefixed readings is a rounding residue, not 0)
        vscale = max(abs(want_val), abs(x), abs(y)) if cs["op"] in ("add", "sub") else abs(want_val)
        if abs(got_val - want_val) > tol * vscale:
            c.violation(f"measurand:{cs['op']}", f"measurand {float(got_val)}, the plain operation gives {float(want_val)}", repl)
        if abs(got_s**2 - want_sq) > tol * (abs(want_sq) + got_s**2):
            c.violation(f"uncertainty:{cs['op']}", f"uncertainty {float(got_s)}, first-order propagation gives {float(want_sq) ** 0.5}", repl)
        if res["u"]["f"] != res["su"]["f"] or res["u"]["p"] != res["su"]["p"]:
            c.violation("uncertainty-unit", "uncertainty is not in the measurand's unit", repl)
        terms.append(f"(MkM {mop} {cQ(x)} {cQ(sx)} {cQ(y)} {cQ(sy)} {cQ(got_val)} {cQ(got_s)})"); keep.append(i)
    # ---------------- operands on temperature scales: an uncertainty is an interval width, it scales with the unit's size and ignores the zero point
    SLOPE = {"kelvin": Fraction(1), "celsius": Fraction(1), "Rankine": Fraction(5, 9), "fahrenheit": Fraction(5, 9)}
    ZERO = {"kelvin": 0, "celsius": 1, "Rankine": 0, "fahrenheit": 2}     # which zero point the scale uses
    tcases = []
    for op in ("add", "sub"):
        for ul in SLOPE:
            for ur in SLOPE:
                tcases.append({"op": op, "l": {"t": "meas", "m": ["int", "20", "1"], "s": ["float", "1", "2"], "u": [[None, ul, 1]]},
                               "r": {"t": "meas", "m": ["int", "5", "1"], "s": ["float", "1", "4"], "u": [[None, ur, 1]]}})
    for cs, rec in zip(tcases, impl("meas_worker.py", {"cases": tcases})["results"]):
        c.count(cs, nontrivial=True)
        res = rec["res"]
        ul, ur = cs["l"]["u"][0][1], cs["r"]["u"][0][1]
        repl = {"case": cs, "implementation": res}
        if "err" in res:
            c.violation(f"raises:{cs['op']}:{res['err']}", f"{cs['op']} on temperature measurements raised {res['err']}", repl); continue
        if len(res.get("s", [])) != 3: continue
        want_sq = Fraction(1, 2) ** 2 + (Fraction(1, 4) * SLOPE[ur] / SLOPE[ul]) ** 2
        got = frac(res["s"])
        if abs(got ** 2 - want_sq) > Fraction(1, 10**9) * (want_sq + got ** 2):
            key = "uncertainty:offset-scales" if ZERO[ul] != ZERO[ur] else f"uncertainty:{cs['op']}:temperature"
            c.violation(key, f"(20 +- 0.5 {ul}) {cs['op']} (5 +- 0.25 {ur}) has uncertainty {float(got)}; first-order propagation gives {float(want_sq) ** 0.5} "
                             f"(the other operand's uncertainty converted as an interval)", repl)
    files = {}
    sh = 350
    for k in range(0, len(terms), sh):
        files[f"Run_meas_{k // sh}"] = (MHEADER + f"Definition cases : list mcase := {clist(terms[k:k + sh])}.\n"
            f"Definition mm := Eval vm_compute in mismatches (mcase_ok {cQ(Fraction(1, 10**9))}) cases.\nPrint mm.\n"
            "Lemma run_agrees : mm = [].\nProof. vm_compute. reflexivity. Qed.\n")
    out = c.run_coq(files)
    for name, (ok, log) in sorted(out.items()):
        mm = re.search(r"mm =\s*(\[[^\]]*\])", log, re.S)
        bad = [int(t) for t in re.findall(r"\d+", mm.group(1))] if mm else None
        c.oblige(f"{name}.run_agrees (measurand and squared uncertainty of the implementation = the modelled formulas, 1e-9)", ok and bad == [],
                 f"mismatching cases {bad[:8] if bad else log[-500:]}")
        if bad:
            base = int(name.split("_")[-1]) * sh
            for j in bad[:3]:
                i = keep[base + j]
                c.cov.setdefault("model_impl_mismatches", []).append({"case": cases[i], "impl": recs[i]["res"]})
    c.sample({"case": cases[0], "result": recs[0]["res"]}); c.sample({"case": cases[3], "result": recs[3]["res"]})
    c.finish(rule="Measurement (or plain Quantity) operands on either side of + - * / and ** n (n in [-4, 4]) with int/float/Decimal magnitudes of both signs and "
                  "zero, in mixed convertible units and prefixes; measurand compared with the plain operation and squared uncertainty with first-order "
                  "propagation (exact rationals, 1e-9), in Python (oracle) and in the Coq model (kernel); distinct by hash",
             extra=dict(stats, traces_validated_against_impl=len(cases)),
             assumptions=["theorems are over the reals (Coquelicot Derive); the standard library's real-number axioms are used: ClassicalDedekindReals.sig_not_dec, "
                          "sig_forall_dec, FunctionalExtensionality.functional_extensionality_dep, Classical_Prop.classic",
                          "float rounding (math.sqrt, products) measured at 1e-9 on squares, not proved"])

guarded(main, "C14")
