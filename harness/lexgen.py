"""Translator for the character-level parser model (coq/Model/Lex.v): the terminals' regular expressions as compiled into
_parser.py (fail-closed on anything outside the subset), Lark's terminal order, the tree-building options of the rules."""
from common import *

class Untranslatable(Exception): pass

def parse_regex(src):
    """-> nested tuples ('eps',) ('chr', c) ('rng', lo, hi) ('seq', a, b) ('alt', a, b) ('opt', a) ('plus', a)"""
    pos = [0]
    def peek(): return src[pos[0]] if pos[0] < len(src) else None
    def take():
        ch = src[pos[0]]; pos[0] += 1; return ch
    def seqof(items):
        if not items: return ("eps",)
        r = items[-1]
        for x in reversed(items[:-1]): r = ("seq", x, r)
        return r
    def alt():
        branches = [seq()]
        while peek() == "|":
            take(); branches.append(seq())
        r = branches[-1]
        for b in reversed(branches[:-1]): r = ("alt", b, r)
        return r
    def seq():
        items = []
        while peek() is not None and peek() not in "|)":
            a = atom()
            q = peek()
            if q == "+": take(); a = ("plus", a)
            elif q == "?": take(); a = ("opt", a)
            elif q in ("*", "{"): raise Untranslatable(f"quantifier {q!r} in {src!r}")
            if peek() in ("?", "+", "*"): raise Untranslatable(f"lazy / possessive quantifier in {src!r}")
            items.append(a)
        return seqof(items)
    def escaped():
        ch = take()
        if ch in "+-.()^*?|[]{}\\/$": return ord(ch)
        raise Untranslatable(f"escape \\{ch} in {src!r}")
    def atom():
        ch = take()
        if ch == "(":
            if src[pos[0]:pos[0] + 2] != "?:": raise Untranslatable(f"group other than (?:...) in {src!r}")
            pos[0] += 2
            r = alt()
            if peek() != ")": raise Untranslatable(f"unbalanced group in {src!r}")
            take(); return r
        if ch == "[":
            if peek() == "^": raise Untranslatable(f"negated class in {src!r}")
            parts = []
            while peek() != "]":
                if peek() is None: raise Untranslatable(f"unterminated class in {src!r}")
                lo = take()
                lo = escaped() if lo == "\\" else ord(lo)
                if peek() == "-" and src[pos[0] + 1] != "]":
                    take(); hi = take(); hi = escaped() if hi == "\\" else ord(hi)
                    if hi < lo: raise Untranslatable("reversed range")
                    parts.append(("rng", lo, hi))
                else:
                    parts.append(("chr", lo))
            take()
            if not parts: raise Untranslatable("empty class")
            r = parts[-1]
            for p in reversed(parts[:-1]): r = ("alt", p, r)
            return r
        if ch == "\\": return ("chr", escaped())
        if ch in ".^$*+?{}": raise Untranslatable(f"metacharacter {ch!r} in {src!r}")
        return ("chr", ord(ch))
    r = alt()
    if pos[0] != len(src): raise Untranslatable(f"trailing {src[pos[0]:]!r} in {src!r}")
    return r

def literal(s):
    items = [("chr", ord(ch)) for ch in s]
    if not items: raise Untranslatable("empty string terminal")
    r = items[-1]
    for x in reversed(items[:-1]): r = ("seq", x, r)
    return r

def coq_re(r):
    k = r[0]
    if k == "eps": return "REps"
    if k == "chr": return f"(RChar {r[1]}%N)"
    if k == "rng": return f"(RRange {r[1]}%N {r[2]}%N)"
    return "(" + {"seq": "RSeq", "alt": "RAlt", "opt": "ROpt", "plus": "RPlus"}[k] + " " + " ".join(coq_re(x) for x in r[1:]) + ")"

def ctext(s): return clist(f"{ord(ch)}%N" for ch in s)

def model(T, sid, allrules):
    """Coq definitions: order, ignore, infos, filtered, node-name ids; T is c16.canon(...) of one artefact"""
    terms = []
    for name, ptype, value, flags, prio, width in T["terminals"]:
        if flags: raise Untranslatable(f"flags {flags} on {name}")
        if ptype == "PatternStr": ast_, maxw = literal(value), len(value)
        elif ptype == "PatternRE": ast_, maxw = parse_regex(value), width[1]
        else: raise Untranslatable(ptype)
        terms.append((name, ast_, ptype == "PatternStr", prio, maxw, len(value), value))
    if T.get("g_regex_flags"): raise Untranslatable("global regex flags")
    # BasicLexer.__init__: terminals.sort(key=lambda x: (-x.priority, -x.pattern.max_width, -len(x.pattern.value), x.name))
    order = sorted(terms, key=lambda t: (-t[3], -t[4], -t[5], t[0]))
    nid = {}
    def node(n): return nid.setdefault(n, len(nid) + 1)
    infos, filt = [], {}
    for origin, exp, alias, _order, (keep_all, expand1, _prio, empty) in allrules:
        if keep_all or empty: raise Untranslatable(f"rule options of {origin}")
        for sname, stype, fo in exp:
            if stype == "Terminal":
                if filt.setdefault(sname, fo) != fo: raise Untranslatable(f"terminal {sname} filtered in one rule and kept in another")
            elif fo: raise Untranslatable("filter_out on a non-terminal")
        infos.append(f"(MkRI {cpos(node(alias or origin))} {'true' if origin.startswith('_') else 'false'} {'true' if expand1 else 'false'})")
    txt = (f"Definition lex_order : list terminal := {clist(f'(MkTerm {cpos(sid[t[0]])} {coq_re(t[1])} ' + ('true' if t[2] else 'false') + ')' for t in order)}.\n"
           f"Definition lex_ignore : list positive := {clist(cpos(sid[n]) for n in T['ignore'])}.\n"
           f"Definition rule_infos : list rinfo := {clist(infos)}.\n"
           f"Definition filtered : list positive := {clist(cpos(sid[n]) for n, fo in sorted(filt.items()) if fo)}.\n"
           f"Definition str_texts : list (positive * text) := {clist(f'({cpos(sid[t[0]])}, {ctext(t[6])})' for t in order if t[2])}.\n"
           "Lemma no_embedded : no_embedded_strings lex_order str_texts = true.\nProof. vm_compute. reflexivity. Qed.\n")
    for t in order:
        if t[0] in ("SYMBOL", "WS"):
            # hypotheses of C17_class_plus_is_maximal_munch on the regenerated expression: (one-character class)+
            txt += (f"Definition shape_{t[0]} : bool := match {coq_re(t[1])} with RPlus b => match Measured.Proofs.LexFacts.class_pred b with Some _ => true | None => false end | _ => false end.\n"
                    f"Lemma {t[0]}_is_class_plus : shape_{t[0]} = true.\nProof. reflexivity. Qed.\n")
    return txt, nid, [t[0] for t in order]

def coq_tree(t, sid, nid):
    """canonical implementation tree (c16.tree_repr) -> Model/Lex.v term"""
    if t[0] == "token": return f"(TTok {cpos(sid[t[1]])} {ctext(t[2])})"
    if t[0] == "other": raise Untranslatable("non-tree value")
    if t[0] not in nid: raise Untranslatable(f"node name {t[0]}")
    return f"(TNode {cpos(nid[t[0]])} {clist(coq_tree(x, sid, nid) for x in t[1])})"

def parser_defs():
    """Coq definitions of the shipped parser for other checks (C13, C17): scanner data, rules, both start tables, the names record"""
    import c16
    mod = c16.load_module(os.path.join(c16.SRCDIR, "_parser.py"), "shipped_parser_lexgen")
    A = c16.canon(mod.DATA, mod.MEMO)
    names = sorted({k for row in A["states"].values() for k in row} | {t[0] for t in A["terminals"]} | {"$END"})
    sid = {n: i + 1 for i, n in enumerate(names)}
    allrules = sorted(set(A["rules"]), key=repr)
    rid = {r: i for i, r in enumerate(allrules)}
    ltxt, nid, _ = model(A, sid, allrules)
    def ctable(start):
        n = max(A["states"]) + 1
        rows = []
        for s in range(n):
            row = A["states"].get(s, {})
            rows.append(clist(f"({cpos(sid[k])}, {'Shift ' + cnat(v[1]) if v[0] == 0 else 'Reduce ' + cnat(rid[v[1]])})" for k, v in sorted(row.items())))
        return f"(MkT {clist(rows)} {cnat(A['start_states'][start])} {cnat(A['end_states'][start])})"
    need = ("unit", "unit_sequence", "term", "carat_exponent", "superscript_exponent")
    for n in need:
        if n not in nid: raise Untranslatable(f"the grammar has no node named {n}")
    for n in ("quantity", "int", "float"):
        if n not in nid: raise Untranslatable(f"the grammar has no node named {n}")
    for t in ("SIGNED_INT", "SIGNED_FLOAT"):
        if t not in sid: raise Untranslatable(f"the grammar has no terminal {t}")
    for t in ("SYMBOL", "CARAT_EXPONENT", "SUPERSCRIPT_EXPONENT"):
        if t not in sid: raise Untranslatable(f"the grammar has no terminal {t}")
    txt = ("From Coq Require Import NArith PArith.\nFrom Measured Require Import Model.LR Model.Lex Model.TextParse Proofs.LexFacts.\n" + ltxt +
           f"Definition lr_rules : list rule := {clist(f'(MkRule {cpos(sid[r[0]])} {cnat(len(r[1]))})' for r in allrules)}.\n"
           f"Definition lr_terminals : list positive := {clist(cpos(sid[t[0]]) for t in sorted(A['terminals']))}.\n"
           f"Definition end_sym : positive := {cpos(sid['$END'])}.\n"
           f"Definition T_unit : table := {ctable('unit')}.\nDefinition T_quantity : table := {ctable('quantity')}.\n"
           f"Definition NM : names := MkNames {cpos(nid['unit'])} {cpos(nid['unit_sequence'])} {cpos(nid['term'])} {cpos(nid['carat_exponent'])} "
           f"{cpos(nid['superscript_exponent'])} {cpos(sid['SYMBOL'])} {cpos(sid['CARAT_EXPONENT'])} {cpos(sid['SUPERSCRIPT_EXPONENT'])}.\n"
           f"Definition QN : qnames := MkQNames {cpos(nid['quantity'])} {cpos(nid['int'])} {cpos(nid['float'])} {cpos(sid['SIGNED_INT'])} {cpos(sid['SIGNED_FLOAT'])}.\n")
    return txt
