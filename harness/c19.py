"""C19 — declared names/symbols bind faithfully; failed definitions change nothing."""
import sys, os
sys.path.insert(0, os.path.dirname(os.path.abspath(__file__)))
from common import *

RHEADER = """From stdpp Require Import gmap.
From Measured Require Import Model.Registry Model.RegCheck Proofs.RegistryFacts.
"""
MODULES = ["acoustics", "apocrypha", "astronomical", "avoirdupois", "computing", "electronics", "energy", "eu",
           "fff", "iec", "iso", "metric", "music", "natural", "si", "troy", "us"]

class Keys:
    def __init__(self): self.m = {}
    def __call__(self, s):
        if s is None: return "None"
        return f"(Some {cpos(self.m.setdefault(s, len(self.m) + 1))})"
    def k(self, s): return cpos(self.m.setdefault(s, len(self.m) + 1))

def coq_reg(snap, K):
    def gm(d, val): return "(list_to_map " + clist(f"({K.k(k)}, {val(v)})" for k, v in sorted(d.items())) + ")"
    def gl(d): return "(list_to_map " + clist(f"({cnat(int(o))}, {clist(K.k(x) for x in l)})" for o, l in sorted(d.items(), key=lambda kv: int(kv[0]))) + ")"
    return f"(MkR {gm(snap['byn'], cnat)} {gm(snap['bys'], cnat)} {gl(snap['nm'])} {gl(snap['sy'])} {cnat(snap['count'])})"

def coq_diff(d, K):
    def bl(l): return clist(f"({K.k(k)}, {'Some ' + cnat(v) if v is not None else 'None'})" for k, v in l)
    def ll(l): return clist(f"({cnat(int(o))}, {clist(K.k(x) for x in ks)})" for o, ks in l)
    return f"(MkD {bl(d['byn'])} {bl(d['bys'])} {ll(d['nm'])} {ll(d['sy'])} {cnat(d['count'])})"

def gen_ops(rng, kind, init, n):
    """operations with fresh, own, foreign and malformed names in every argument position"""
    ops = []
    names = sorted(init["byn"]); syms = sorted(init["bys"])
    nobj = init["count"]
    fresh = [0]
    mynames, mysyms = [], []
    def fr(p):
        # letters only: symbols must be lexable by the unit grammar
        fresh[0] += 1; n = fresh[0]; t = ""
        while n: t = "abcdefghij"[n % 10] + t; n //= 10
        return f"vf{p}{t}"
    def pick_name(own_of=None):
        r = rng.random()
        if r < 0.25: return None
        if r < 0.55: return fr("n")
        if r < 0.62 and syms: return rng.choice(syms)          # a name that is another object's symbol (or reads as prefix + symbol): names and symbols are separate registries
        if r < 0.80 and names: return rng.choice(names)
        return rng.choice(names) if names else fr("n")
    def pick_sym(spaced_ok=True):
        r = rng.random()
        if r < 0.25: return None
        if r < 0.55: return fr("s")
        if r < 0.70 and spaced_ok: return "vf s" + str(rng.randint(0, 99))
        return rng.choice(syms) if syms else fr("s")
    if kind == "unit":
        # fixed corpus first, in every history: a scale with each kind of zero point (of another dimension, not a quantity,
        # well-formed) under fresh identifiers, and a definition whose symbol holds a blank other than U+0020
        for dname in ("temperature", "length"):
            for z in ("otherdim", "number", "ok"):
                ops.append(["uscale", dname, fr("n"), fr("s"), z])
        for blank in ("\t", "\n", "\u00a0", "\u2009"):
            ops.append(["udefine", "length", fr("n"), "vf" + blank + "w"])
        for o in ops:
            if o[0] == "uscale" and o[4] == "ok": names.append(o[2]); syms.append(o[3]); mynames.append(o[2]); mysyms.append(o[3])
        # a unit that has no name is pickled, then given a symbol only, then the old pickle is read back: the symbol stays declared and reported
        anon = [i for i in range(nobj) if str(i) not in init["nm"] and str(i) not in init["sy"]]
        for a_ in rng.sample(anon, min(3, len(anon))):
            sy_ = fr("s")
            ops += [["snap", a_], ["ualias", a_, None, sy_], ["uresolve", sy_], ["load", a_], ["uresolve", sy_], ["ualias", a_, fr("n"), None], ["load", a_]]
    for _ in range(n):
        if rng.random() < 0.06:
            # documents of registered objects taken at one point of the history and read back at a later one
            ops.append([rng.choice(["snap", "load", "load"]), rng.randrange(nobj)]); continue
        if kind == "unit":
            r = rng.random()
            if r < 0.30:
                ops.append(["udefine", rng.choice(["length", "time", "mass", "speed", "energy", "number"]),
                            pick_name() or fr("n"), pick_sym() or fr("s")])
            elif r < 0.36:
                # a scale (unit + zero point): the zero point well-formed, not a quantity at all, or of another dimension
                ops.append(["uscale", rng.choice(["temperature", "length", "time"]), pick_name() or fr("n"), pick_sym() or fr("s"), rng.choice(["ok", "number", "otherdim", "number"])])
            elif r < 0.42 and init["nm"]:
                # one identifier the unit already has together with a new one: the new one is still declared
                o_ = rng.choice(sorted(init["nm"], key=int)); own = init["nm"][o_][0]
                own_sym = (init["sy"].get(o_) or [None])[0]
                if rng.random() < 0.5 or own_sym is None: ops.append(["ualias", int(o_), own, fr("s")])
                else: ops.append(["ualias", int(o_), fr("n"), own_sym])
            elif r < 0.65:
                ops.append(["ualias", rng.randrange(nobj), pick_name(), pick_sym()])
            elif r < 0.80:
                ops.append(["uderive", rng.randrange(nobj), pick_name() or fr("n"), pick_sym() or fr("s")])
            else:
                ops.append(["uanon", rng.randrange(nobj), rng.randrange(nobj), rng.choice(["mul", "div", "pow"]),
                            rng.choice([-2, -1, 2, 3])])
            # a symbol that already resolves before it is declared (prefix symbol + an earlier symbol, or an earlier name used as
            # a symbol), probed through Unit.resolve_symbol / Unit.parse before and after the declaration
            if ops[-1][0] in ("udefine", "ualias", "uderive") and rng.random() < 0.35 and (mysyms or mynames):
                s2 = ("k" + rng.choice(mysyms)) if (mysyms and rng.random() < 0.6) else rng.choice(mynames or mysyms)
                ops[-1][3] = s2
                decl = ops.pop()
                ops.append(["uresolve", s2]); ops.append(decl); ops.append(["uresolve", s2])
            elif ops[-1][0] in ("udefine", "ualias", "uderive") and rng.random() < 0.12:
                # a symbol whose code points are not in Unicode normal form (ANGSTROM SIGN, OHM SIGN, KELVIN SIGN, combining accent)
                s3 = "vf" + rng.choice(["\u212b", "\u2126", "\u212a", "e\u0301", "\u1e9b\u0323"]) + fr("u")[3:]
                ops[-1][3] = s3
                ops.append(["uresolve", s3, False])
            elif ops[-1][0] in ("udefine", "ualias", "uderive") and ops[-1][3] and " " not in ops[-1][3]:
                ops.append(["uresolve", ops[-1][3]])
            for x in [y for o in ops[-3:] for y in o[1:]]:
                if isinstance(x, str) and x.startswith("vfn") and x not in mynames: mynames.append(x)
                if isinstance(x, str) and x.startswith("vfs") and x not in mysyms: mysyms.append(x)
            # newly registered names become candidates for later collisions
            for x in ops[-1][1:]:
                if isinstance(x, str) and x.startswith("vfn"): names.append(x)
                if isinstance(x, str) and x.startswith("vfs"): syms.append(x)
            nobj += 0
        elif kind == "prefix":
            # exponent 0 of any base is the identity prefix: a declaration through it must not rename anything
            ops.append(["pdecl", rng.choice([10, 10, 2, 3, 7]), rng.choice([-9, -6, -4, -3, -2, -1, 0, 0, 1, 2, 3, 4, 5, 6, 7]),
                        pick_name(), pick_sym(spaced_ok=False)])
            for x in ops[-1][3:]:
                if isinstance(x, str) and x.startswith("vfn"): names.append(x)
                if isinstance(x, str) and x.startswith("vfs"): syms.append(x)
        else:
            r = rng.random()
            if r < 0.45:
                ops.append(["danon", rng.randrange(nobj), rng.randrange(nobj), rng.choice(["mul", "div", "pow"]),
                            rng.choice([-2, -1, 2, 3, 9])])
            elif r < 0.55:
                # a document of a dimension this process has not built, carrying a taken or an unused name
                ops.append(["djson", [rng.choice([5, 7, 11, -5]), rng.choice([-7, 3, 13]), rng.randint(-3, 3)], rng.choice(names) if (names and rng.random() < 0.6) else fr("n"), rng.choice([None, "X"])])
            elif r < 0.92:
                ops.append(["dderive", rng.randrange(nobj), pick_name() or fr("n"), rng.choice([None, "X" + str(rng.randint(0, 9))])])
                if ops[-1][2].startswith("vfn"): names.append(ops[-1][2])
            else:
                ops.append(["ddefine", rng.choice(names) if rng.random() < 0.8 else fr("n"), "Z"])
    return ops

def model_op(kind, op, rec, known_objs):
    """the registry-machine operation the call amounts to"""
    k = op[0]
    spaced = lambda s: "true" if (s is not None and " " in s) else "false"
    if k == "udefine": return ("New", None, op[2], op[3], spaced(op[3]))
    if k == "uscale": return "mustfail" if op[4] == "number" else ("New", None, op[2], op[3], spaced(op[3]))
    if k in ("ualias", "uderive"): return ("Name", op[1], op[2], op[3], spaced(op[3]))
    if k == "uresolve":
        if "err" in rec: return "skip"
        return ("New", None, None, None, "false") if rec["created"] else ("Name", rec["obj"], None, None, "false")
    if k in ("snap", "load"):
        if "err" in rec: return None
        return ("Name", rec["obj"], None, None, "false")
    if k in ("uanon", "danon", "djson"):
        if "err" in rec: return None
        return ("New", None, None, None, "false") if rec["created"] else ("Name", rec["obj"], None, None, "false")
    if k == "pdecl":
        key = (op[1], op[2])
        if key in known_objs: return ("Name", known_objs[key], op[3], op[4], "false")
        return ("New", None, op[3], op[4], "false")
    if k == "dderive": return ("Name", op[1], op[2], None, "false")
    if k == "ddefine": return ("New", None, op[1], None, "false")

def main():
    c = Check("C19")
    c.static_theorems()
    nproc, nops = (4, 120) if c.tier == "quick" else (30, 300)
    files = {}
    meta = {}
    for kind in ("unit", "prefix", "dimension"):
        for p in range(nproc):
            probe = impl("registry_worker.py", {"kind": kind, "ops": []})
            init = probe["initial"]
            ops = gen_ops(c.rng, kind, init, nops)
            r = impl("registry_worker.py", {"kind": kind, "ops": ops})
            init = r["initial"]
            K = Keys()
            known_objs = {}
            if kind == "prefix":
                exp = impl("export_worker.py", {})
                for i, pr in enumerate(exp["prefixes"]):
                    if not isinstance(pr["exp"], dict):
                        known_objs[(pr["exp"][0], pr["exp"][1]) if pr["base"] else (0, 0)] = i
            items = []
            item_op = []
            for i, (op, rec) in enumerate(zip(ops, r["results"])):
                mo = model_op(kind, op, rec, known_objs)
                c.count([kind, op], nontrivial=True)
                # ---- the property's own observables on the implementation
                d = rec["diff"]
                changed = d["byn"] or d["bys"] or d["nm"] or d["sy"]
                if rec.get("dups"):
                    c.violation(f"twoclaim:{kind}", f"after {op} the name/symbol {rec['dups']} is claimed by two different objects", {"kind": kind, "ops": ops[:i + 1]})
                if rec.get("lookup_disagrees"):
                    c.violation(f"name-lookup-disagrees:{kind}", f"after {op} a lookup of the object by a name it reports returns something else: {rec['lookup_disagrees']}", {"kind": kind, "ops": ops[:i + 1]})
                if rec.get("unreported"):
                    c.violation(f"bound-not-reported:{kind}", f"after {op} {rec['unreported']} is bound to an object that does not report it", {"kind": kind, "ops": ops[:i + 1]})
                if op[0] in ("snap", "load") and (changed or "err" in rec):
                    c.violation(f"document-mutates:{kind}", f"{op} (pickling a registered object / reading the pickle back) changed the registries or raised: {json.dumps(d)[:200]} {rec.get('err')}",
                                {"kind": kind, "ops": ops[:i + 1]})
                if op[0] == "uresolve":
                    # a lookup never changes names or symbols, and after a successful declaration of this symbol it returns that object
                    if changed:
                        c.violation("lookup-mutates", f"{op} changed the registries: {json.dumps(d)[:200]}", {"kind": kind, "ops": ops[:i + 1]})
                    if rec.get("err") not in (None, "KeyError"):
                        c.violation(f"lookup-raises:{rec['err']}", f"{op} raised {rec['err']}: {rec.get('msg')}", {"kind": kind, "ops": ops[:i + 1]})
                    prevop, prevrec = (ops[i - 1], r["results"][i - 1]) if i else (None, None)
                    if prevop and prevop[0] in ("udefine", "ualias", "uderive") and prevop[3] == op[1] and "err" not in prevrec:
                        if rec.get("obj") != prevrec.get("obj"):
                            c.violation("stale-lookup", f"after {prevop} succeeded, looking up the symbol {op[1]!r} returns another object (or fails: {rec.get('err')})",
                                        {"kind": kind, "ops": ops[:i + 1]})
                    if mo == "skip": continue
                elif "err" in rec:
                    cnt_before = (r["results"][i - 1]["diff"]["count"] if i else init["count"])
                    if changed or d["count"] != cnt_before:
                        c.violation(f"nonatomic:{kind}:{op[0]}", f"{op} raised {rec['err']} but changed the registries: {json.dumps(d)[:300]}",
                                    {"kind": kind, "ops": ops[:i + 1]})
                    if rec["err"] != "ValueError" and not (op[0] in ("uanon", "danon", "djson")) and not (op[0] == "uscale" and op[4] == "number" and rec["err"] == "TypeError"):
                        c.violation(f"errclass:{kind}:{op[0]}:{rec['err']}", f"{op} raised {rec['err']}: {rec.get('msg')}",
                                    {"kind": kind, "ops": ops[:i + 1]})
                else:
                    nm_decl = op[2] if op[0] in ("udefine", "ualias", "uderive", "dderive", "uscale") else (op[3] if op[0] == "pdecl" else (op[1] if op[0] == "ddefine" else None))
                    sy_decl = op[3] if op[0] in ("udefine", "ualias", "uderive", "uscale") else (op[4] if op[0] == "pdecl" else None)
                    if op[0] == "pdecl" and op[2] == 0: nm_decl = sy_decl = None
                    if nm_decl and nm_decl not in rec["reports"][0]:
                        c.violation(f"unreported:{kind}:{op[0]}", f"{op} succeeded but the object reports names {rec['reports'][0]}",
                                    {"kind": kind, "ops": ops[:i + 1]})
                    if sy_decl and sy_decl not in rec["reports"][1]:
                        c.violation(f"unreported:{kind}:{op[0]}", f"{op} succeeded but the object reports symbols {rec['reports'][1]}",
                                    {"kind": kind, "ops": ops[:i + 1]})
                    if kind == "prefix" and op[0] == "pdecl" and op[2] != 0:
                        known_objs[(op[1], op[2])] = rec["obj"]
                if op[0] == "pdecl" and op[2] == 0:
                    # base**0 is the identity prefix: with a name or symbol the declaration is refused, without it is a no-op
                    if (op[3] or op[4]) and "err" not in rec:
                        c.violation("identity-renamed", f"{op} declared a name/symbol through base**0 and did not raise: the declaration is lost or rebinds the identity prefix",
                                    {"kind": kind, "ops": ops[:i + 1], "diff": d})
                    if changed:
                        c.violation("identity-renamed", f"{op} changed the registries: {json.dumps(d)[:300]}", {"kind": kind, "ops": ops[:i + 1]})
                    continue
                if mo == "mustfail":
                    if "err" not in rec:
                        c.violation(f"accepted:{kind}:{op[0]}", f"{op} (a zero point that is not a quantity) did not raise", {"kind": kind, "ops": ops[:i + 1]})
                    continue
                if mo is None:
                    break
                out = "Raised" if "err" in rec else f"(Done {cnat(rec['obj'])})"
                if mo[0] == "New":
                    cop = f"(New {K(mo[2])} {K(mo[3])} {mo[4]})"
                else:
                    cop = f"(Name {cnat(mo[1])} {K(mo[2])} {K(mo[3])} {mo[4]})"
                items.append(f"({cop}, {out}, {coq_diff(d, K)})"); item_op.append(i)
            if p == 0:
                c.sample({"kind": kind, "ops": ops[:5], "outcomes": [x.get("err", "ok") for x in r["results"][:5]]})
            multi = "true" if kind == "unit" else "false"
            name = f"Run_C19_{kind}_{p}"
            meta[name] = (kind, ops, item_op, r["results"])
            files[name] = RHEADER + f"""
Definition initial : reg := {coq_reg(init, K)}.
(* the registries left by importing the shipped modules are faithful: no name or symbol is
   claimed by two objects, every binding is reported by its object *)
Lemma initial_inv : rinvb initial = true.
Proof. vm_compute. reflexivity. Qed.
Theorem initial_RInv : RInv initial.
Proof. apply rinvb_spec. exact initial_inv. Qed.
Definition history : list (rop * rout * rdiff) := {clist(items)}.
Lemma run_agrees : first_mismatch {multi} initial 0 history = None.
Proof. vm_compute. reflexivity. Qed.
"""
    outs = c.run_coq(files)
    for n, (ok, log) in sorted(outs.items()):
        c.oblige(f"{n}: initial_inv + run_agrees (registry machine = implementation after every call)", ok, log[-600:])
        if not ok:
            kind, ops, item_op, results = meta[n]
            txt = files[n].replace("Lemma run_agrees : first_mismatch", "Eval vm_compute in (first_mismatch").replace(
                " initial 0 history = None.\nProof. vm_compute. reflexivity. Qed.", " initial 0 history).")
            txt = txt.replace("Lemma initial_inv : rinvb initial = true.\nProof. vm_compute. reflexivity. Qed.", "Eval vm_compute in (rinvb initial).").replace(
                "Theorem initial_RInv : RInv initial.\nProof. apply rinvb_spec. exact initial_inv. Qed.", "")
            okd, dlog = c.coq_eval(n + "_diag", txt)
            c.notes.append(f"{n}: {dlog[-300:]}")
            m = re.search(r"Some (\d+)", dlog)
            if m:
                i = int(m.group(1))
                j = item_op[i] if i < len(item_op) else None
                c.cov.setdefault("first_mismatch", []).append({"file": n, "index": j, "op": ops[j] if j is not None else None,
                                                               "impl": results[j] if j is not None else None, "before": ops[max(0, (j or 0) - 3):j]})
    # ---- module import orders: the final bindings do not depend on the order
    norders = 6 if c.tier == "quick" else 40
    digests = {}
    orders = [MODULES[i:] + MODULES[:i] for i in range(0, len(MODULES), max(1, len(MODULES) // 3))][:3]
    while len(orders) < norders:
        o = MODULES[:]; c.rng.shuffle(o); orders.append(o)
    for o in orders:
        for kind in ("unit", "prefix"):
            r = impl("registry_worker.py", {"kind": kind, "ops": [], "order": o})
            s = r["initial"]
            inv_names = {}
            for ob, l in s["nm"].items():
                for nmx in l: inv_names.setdefault(nmx, []).append(ob)
            dup = {k: v for k, v in inv_names.items() if len(v) > 1}
            inv_syms = {}
            for ob, l in s["sy"].items():
                for nmx in l: inv_syms.setdefault(nmx, []).append(ob)
            dup.update({k: v for k, v in inv_syms.items() if len(v) > 1})
            if dup:
                c.violation(f"twoclaim:{kind}:{sorted(dup)[0]}", f"under import order {o[:3]}... two objects claim {dup}", {"order": o, "kind": kind})
            unrep = [k for k, ob in s["byn"].items() if k not in s["nm"].get(str(ob), s["nm"].get(ob, []))]
            unrep += [k for k, ob in s["bys"].items() if k not in s["sy"].get(str(ob), s["sy"].get(ob, []))]
            if unrep:
                c.violation(f"unreported-import:{kind}:{unrep[0]}", f"under import order {o[:3]}... bound but not reported: {unrep[:5]}", {"order": o, "kind": kind})
            digests.setdefault(kind, set()).add(json.dumps([sorted(s["byn"]), sorted(s["bys"]),
                                                            sorted(sorted(l) for l in s["nm"].values()), sorted(sorted(l) for l in s["sy"].values())]))
            c.count(["order", kind, o])
    for kind, ds in digests.items():
        if len(ds) > 1:
            c.violation(f"orderdependent:{kind}", f"the {kind} names/symbols depend on the module import order", {"orders": orders})
    c.finish(rule="histories of define / alias / derive / prefix declaration / dimension derivation calls, each name and symbol "
                  "argument drawn from {absent, fresh, already owned, owned by another object, containing a space}, "
                  "including naming of objects first created anonymously; fresh subprocess per history starting from the "
                  "shipped registry; after every call the full registries are diffed; plus module import orders; every "
                  "operation is non-trivial; distinct by hash",
             extra={"import_orders": len(orders), "traces_validated_against_impl": 3 * nproc},
             assumptions=["asynchronous exceptions injected between two mutation lines are not counted (no validate-then-mutate code is atomic against them)",
                          "Logarithm / LogarithmicUnit aliases are outside the property (dimension, prefix or unit)"])

guarded(main, "C19")
