"""C16 — the checked-in generated parser implements exactly the grammar file."""
import sys, os, subprocess, types, importlib.util
sys.path.insert(0, os.path.dirname(os.path.abspath(__file__)))
from common import *

LHEADER = """From Coq Require Import List Arith PArith ZArith Bool.
From Measured Require Import Model.LR Proofs.LRFacts.
Import ListNotations.
"""
OPTION_KEYS = ("parser", "lexer", "start", "keep_all_tokens", "maybe_placeholders", "priority", "ambiguity", "regex", "g_regex_flags",
               "use_bytes", "propagate_positions", "postlex", "tree_class")
SRCDIR = os.path.join(REPO, "src", "measured")

def load_module(path, name):
    spec = importlib.util.spec_from_file_location(name, path)
    mod = importlib.util.module_from_spec(spec)
    spec.loader.exec_module(mod)
    return mod

def deref(x, memo):
    return memo[x["@"]] if isinstance(x, dict) and set(x) == {"@"} else x

def canon(DATA, MEMO):
    """canonical, version-independent content of a standalone parser's tables"""
    P = DATA["parser"]
    terms = []
    for t in P["lexer_conf"]["terminals"]:
        t = deref(t, MEMO); pat = t["pattern"]
        w = [min(int(x), 2**31) for x in pat.get("_width", [0, 0])]
        terms.append((t["name"], pat["__type__"], pat["value"], tuple(sorted(pat.get("flags", []))), t.get("priority", 0), tuple(w)))
    def crule(r):
        r = deref(r, MEMO)
        exp = tuple((s["name"], s["__type__"], bool(s.get("filter_out", False))) for s in r["expansion"])
        o = r.get("options") or {}
        return (str(r["origin"]["name"]), exp, r.get("alias"), r.get("order", 0),
                (bool(o.get("keep_all_tokens")), bool(o.get("expand1")), o.get("priority"), tuple(o.get("empty_indices") or ())))
    rules = [crule(r) for r in P["parser_conf"]["rules"]]
    pp = P["parser"]
    tokens = pp["tokens"]
    states = {}
    for s, row in pp["states"].items():
        states[int(s)] = {tokens[int(k)]: (int(a[0]), (int(a[1]) if int(a[0]) == 0 else crule(a[1]))) for k, a in row.items()}
    opts = {k: DATA["options"].get(k) for k in OPTION_KEYS}
    return {"terminals": sorted(terms), "ignore": sorted(P["lexer_conf"]["ignore"]), "lexer_type": P["lexer_conf"].get("lexer_type"),
            "g_regex_flags": P["lexer_conf"].get("g_regex_flags"), "use_bytes": P["lexer_conf"].get("use_bytes"),
            "rules": rules, "states": states, "start_states": dict(pp["start_states"]), "end_states": dict(pp["end_states"]), "options": opts,
            "top_rules": sorted(crule(r) for r in DATA["rules"])}

def state_map(A, B):
    """BFS from the start states; returns (map a->b, first difference or None)"""
    f = {}
    queue = []
    for st in sorted(A["start_states"]):
        if st not in B["start_states"]: return f, ("start symbol", st, None)
        queue.append((A["start_states"][st], B["start_states"][st], [st]))
    while queue:
        a, b, path = queue.pop(0)
        if a in f:
            if f[a] != b: return f, ("state merged differently", path, None)
            continue
        f[a] = b
        ra, rb = A["states"].get(a, {}), B["states"].get(b, {})
        for sym in sorted(set(ra) | set(rb)):
            x, y = ra.get(sym), rb.get(sym)
            if x is None or y is None or x[0] != y[0] or (x[0] == 1 and x[1] != y[1]):
                return f, ("action", path, sym)
            if x[0] == 0:
                queue.append((x[1], y[1], path + [sym]))
    return f, None

SAMPLE = {"SYMBOL": "m", "SIGNED_INT": "5", "SIGNED_FLOAT": "2.5", "CARAT_EXPONENT": "^2", "SUPERSCRIPT_EXPONENT": "²", "_MULTIPLY": "*", "_DIVIDE": "/", "$END": ""}

def tree_repr(t):
    """canonical tree: rule name / alias, children; tokens as (type, text) -- independent of the Lark version's repr"""
    if hasattr(t, "children"):
        return [str(t.data), [tree_repr(x) for x in t.children]]
    if hasattr(t, "type"):
        return ["token", str(t.type), str(t)]
    return ["other", repr(t)]

def run_parser(P, start, text):
    try:
        return ["ok", tree_repr(P.parse(text, start=start))]
    except Exception as ex:  # noqa
        return ["err", type(ex).__name__ if type(ex).__module__ != "builtins" else "builtin:" + type(ex).__name__]

def gen_strings(rng, n):
    syms = ["m", "s", "kg", "K", "°C", "ft.", "Å", "Ω", "μm", "1", "M☉", "in.", "(x)", "a-b", "kₐ"]
    def term():
        t = rng.choice(syms)
        r = rng.random()
        if r < 0.25: t += "^" + rng.choice(["2", "-1", "+3", "10", "-22"])
        elif r < 0.5: t += rng.choice(["²", "⁻¹", "³", "⁻²³", "⁰"])
        return t
    def seq():
        k = rng.choice([1, 1, 2, 3])
        ts = [term() for _ in range(k)]
        r = rng.random()
        if r < 0.4: return rng.choice([" ", ""]).join(ts) if all(True for _ in ts) else " ".join(ts)
        if r < 0.7: return rng.choice(["*", "⋅", " * ", " ⋅ "]).join(ts)
        return " ".join(ts)
    def unit():
        u = seq()
        if rng.random() < 0.4: u += rng.choice(["/", " / "]) + seq()
        return u
    out = []
    for _ in range(n):
        r = rng.random()
        if r < 0.35: s = unit()
        elif r < 0.6: s = rng.choice(["5", "-3", "+7", "2.5", "-1e3", "1E-2", ".5", "5.", "0"]) + rng.choice([" ", "", "  "]) + unit()
        else:
            s = unit() if rng.random() < 0.5 else rng.choice(["5 ", "2.5"]) + unit()
            # token-level damage
            ops = rng.choice([1, 1, 2])
            for _ in range(ops):
                i = rng.randrange(len(s) + 1)
                k = rng.random()
                if k < 0.3 and s: s = s[:i] + s[i + 1:]
                elif k < 0.7: s = s[:i] + rng.choice(["/", "*", "⋅", "^", "²", " ", "5", "-", "$", "%", "m", "^^", "//", "⁻", "e", ".", "é", "\t", "\n"]) + s[i:]
                else: s = s[:i] + s[i:][::-1]
        out.append(s)
    # every shape of numeric literal the grammar names: sign x (digits | digits. | .digits | digits.digits) x (no exponent | e/E [sign] digits),
    # glued to and separated from a unit, plus what Python itself prints for floats and Decimals
    lits = []
    for sign in ("", "-", "+"):
        for body in ("1", "15", "1.", ".5", "1.5", "12.25", "0", "00.10"):
            for ex in ("", "e3", "E3", "e+3", "E+3", "e-2", "E-1", "e03", "E", "e", "e+"):
                lits.append(sign + body + ex)
    lits += ["2.5E+3", "1E+16", "1e+16", "6.02E23", "1.5E-1", "+.5E-1", "1E3", "1.E3", ".1E3", "1e3e3", "1.2.3", "1E3.5", "1..5", "--1", "+-1", "1 e3", "1e 3"]
    for l_ in lits:
        out.append(l_ + " m"); out.append(l_ + "m"); out.append(l_ + " " + rng.choice(["kg m/s^2", "s⁻¹", "K", "ft."]))
    out += lits + [l_ + "/s" for l_ in lits[::3]] + ["m/" + l_ for l_ in lits[::5]] + ["m*" + l_ for l_ in lits[::7]] + ["5 " + l_ for l_ in lits[::2]]
    # line breaks between, before and after tokens; leading zeros; brackets that do not balance
    out += ["5\nm", "\nm\n", "\nkm\n", "5\nkm", "m\n/s", "m\r\n s", " \n m", "\n\n5 m", "kg\n\nm", "5 m\n", "007 m", "-01 Ω", "+00012 m/s", "00 m", "00.5 m", "01e5 m", "0 m",
            "m(", "hp(", ")", "5 km/(s", "s/hp(", "((", "m)", "5 (m", "a(b", "hp(E)(", "m^", "m ^ 2", "5 m^ s", "5 km/s ^-", "m+", "m⁻ s"]
    out += ["", " ", "m", "m/s", "m//s", "m/s/s", "5", "5 5 m", "m^", "m^-", "m⁻", "5 m/", "/m", "*m", "m*", "m⋅⋅s", "m ² s", "1/s", "m^2^3", "5e m", "m²", "m s"]
    return out

def main():
    c = Check("C16")
    c.static_theorems()
    rng = c.rng
    quick = c.tier == "quick"
    # ---------------- the two artefacts
    shipped_mod = load_module(os.path.join(SRCDIR, "_parser.py"), "shipped_parser_c16")
    gen = subprocess.run([IMPL_PY, "-m", "lark.tools.standalone", "--start", "unit", "--start", "quantity", os.path.join(SRCDIR, "measured.lark")],
                         capture_output=True, text=True, timeout=300, cwd=c.work)
    if gen.returncode != 0 or "DATA" not in gen.stdout:
        c.oblige("the Makefile's generator (python -m lark.tools.standalone --start unit --start quantity measured.lark) runs on the grammar file", False, gen.stderr[-1500:])
        c.finish(rule="-", extra={"explanation": "the grammar file is not accepted by the generator"})
    fresh_path = os.path.join(c.work, "fresh_parser.py")
    open(fresh_path, "w").write(gen.stdout)
    fresh_mod = load_module(fresh_path, "fresh_parser_c16")
    A = canon(shipped_mod.DATA, shipped_mod.MEMO); B = canon(fresh_mod.DATA, fresh_mod.MEMO)
    ShippedP = shipped_mod.Parser(); FreshP = fresh_mod.Lark_StandAlone()
    # the same generated module as the package uses it: imported as measured._parser after measured.parsing has built its own
    # (transformer-equipped) parser from it; a parser constructed afterwards must still be the plain parser of the grammar
    PkgP = None
    try:
        sys.path.insert(0, os.path.join(REPO, "src"))
        import measured.parsing  # noqa
        import measured._parser as pkg_parser
        PkgP = pkg_parser.Parser()
    except Exception as ex:  # noqa
        c.oblige("measured._parser.Parser() can be constructed after importing measured.parsing", False, repr(ex)[:500])
    # ---------------- tie A: Coq obligations on the regenerated tables
    names = sorted({k for T in (A, B) for row in T["states"].values() for k in row} | {t[0] for T in (A, B) for t in T["terminals"]} | {"$END"})
    sid = {n: i + 1 for i, n in enumerate(names)}
    allrules = sorted(set(A["rules"]) | set(B["rules"]), key=repr)
    rid = {r: i for i, r in enumerate(allrules)}
    fmap, diff = state_map(A, B)
    nA = max(A["states"]) + 1 if A["states"] else 0
    fl = [fmap.get(a, 0) for a in range(nA)]
    def ctable(T, start):
        n = max(T["states"]) + 1
        rows = []
        for s in range(n):
            row = T["states"].get(s, {})
            rows.append(clist(f"({cpos(sid[k])}, {'Shift ' + cnat(v[1]) if v[0] == 0 else 'Reduce ' + cnat(rid[v[1]])})" for k, v in sorted(row.items())))
        return f"(MkT {clist(rows)} {cnat(T['start_states'][start])} {cnat(T['end_states'][start])})"
    def descr(x):
        return clist(clist(str(ord(ch)) + "%Z" for ch in repr(item)) for item in x)
    terminals = clist(cpos(sid[t[0]]) for t in sorted(set(A["terminals"]) | set(B["terminals"])))
    txt = LHEADER + f"Definition symbols : list positive := {clist(cpos(i) for i in sorted(sid.values()))}.\n"
    txt += f"Definition terminals : list positive := {terminals}.\n"
    txt += f"Definition state_map : list nat := {clist(cnat(x) for x in fl)}.\n"
    for st in sorted(set(A["start_states"]) & set(B["start_states"])):
        txt += f"Definition shipped_{st} : table := {ctable(A, st)}.\nDefinition fresh_{st} : table := {ctable(B, st)}.\n"
        txt += (f"Lemma shipped_is_fresh_{st} : states_related state_map symbols shipped_{st} fresh_{st} = true.\nProof. vm_compute. reflexivity. Qed.\n"
                f"Lemma shipped_closed_{st} : table_closed shipped_{st} = true.\nProof. vm_compute. reflexivity. Qed.\n"
                f"Lemma fresh_closed_{st} : table_closed fresh_{st} = true.\nProof. vm_compute. reflexivity. Qed.\n"
                f"Lemma same_size_{st} : length (t_states shipped_{st}) = length (t_states fresh_{st}).\nProof. reflexivity. Qed.\n"
                f"(* no action targets the end state except the goto of the start symbol: the runtime's assertion is unreachable *)\n"
                f"Lemma end_state_has_no_actions_{st} : state_row shipped_{st} (t_end shipped_{st}) = [] /\\ state_row fresh_{st} (t_end fresh_{st}) = [].\nProof. split; reflexivity. Qed.\n")
    txt += f"Definition rulesA : list (list Z) := {descr(A['rules'])}.\nDefinition rulesB : list (list Z) := {descr(B['rules'])}.\n"
    txt += "Lemma rules_equal : rulesA = rulesB.\nProof. reflexivity. Qed.\n"
    txt += f"Definition termsA : list (list Z) := {descr(A['terminals'])}.\nDefinition termsB : list (list Z) := {descr(B['terminals'])}.\n"
    txt += "Lemma terminals_equal : termsA = termsB.\nProof. reflexivity. Qed.\n"
    optA = sorted(A["options"].items()) + [("ignore", A["ignore"]), ("lexer_type", A["lexer_type"]), ("g_regex_flags", A["g_regex_flags"]), ("use_bytes", A["use_bytes"]), ("starts", sorted(A["start_states"]))]
    optB = sorted(B["options"].items()) + [("ignore", B["ignore"]), ("lexer_type", B["lexer_type"]), ("g_regex_flags", B["g_regex_flags"]), ("use_bytes", B["use_bytes"]), ("starts", sorted(B["start_states"]))]
    txt += f"Definition optionsA : list (list Z) := {descr(optA)}.\nDefinition optionsB : list (list Z) := {descr(optB)}.\n"
    txt += "Lemma options_equal : optionsA = optionsB.\nProof. reflexivity. Qed.\n"
    out = c.run_coq({"Gen_tables": txt})
    ok, log = out["Gen_tables"]
    c.oblige(f"Gen_tables: shipped_is_fresh_* (state map over {nA} states respects every shift/reduce/goto entry, start and end states), tables closed, rules_equal "
             f"({len(A['rules'])} rules), terminals_equal ({len(A['terminals'])} terminals), options_equal", ok, log[-1500:])
    c.cov["states"] = nA; c.cov["transitions"] = sum(len(r) for r in A["states"].values())
    # ---------------- the driver model (Model/LR.v) against the real runtime: token sequences fed to ParserState.feed_token of the shipped
    # module; the state stack after every token and the way the run ends must be what the model computes on the shipped table
    def real_traces(mod, T, start, n):
        inner = mod.Parser().parser.parser.parser if hasattr(mod, "Parser") else mod.Lark_StandAlone().parser.parser.parser
        pt, cb = inner.parse_table, inner.callbacks
        terms = [t[0] for t in T["terminals"] if t[0] != "WS"]
        out = []
        for _ in range(n):
            st = mod.ParserState(mod.ParseConf(pt, cb, start), None)
            types, stacks, fin = [], [], None
            for i in range(rng.choice([1, 2, 3, 4, 6, 9, 14])):
                acc = [k for k in pt.states[st.position] if k in terms]
                ty = rng.choice(acc) if (acc and rng.random() < 0.88) else rng.choice(terms)
                types.append(ty)
                try:
                    st.feed_token(mod.Token(ty, SAMPLE.get(ty, "x")))
                    stacks.append(list(st.state_stack))
                except mod.UnexpectedToken:
                    fin = ("at", i); break
            if fin is None:
                try:
                    st.feed_token(mod.Token("$END", ""), True); fin = ("accepted",)
                except mod.UnexpectedToken:
                    fin = ("end",)
            out.append((types, stacks, fin))
        return out
    rules_coq = clist(f"(MkRule {cpos(sid[r[0]])} {cnat(len(r[1]))})" for r in allrules)
    ttxt = LHEADER + f"Definition rules : list rule := {rules_coq}.\n"
    ncases = 0
    for st in sorted(set(A["start_states"]) & set(B["start_states"])):
        traces = real_traces(shipped_mod, A, st, 250 if quick else 3000)
        ncases += len(traces)
        items = []
        for types, stacks, fin in traces:
            f = {"accepted": "TAccepted", "end": "TRejectedAtEnd"}.get(fin[0]) or f"(TRejectedAt {cnat(fin[1])})"
            items.append(f"({clist(cpos(sid[t]) for t in types)}, {clist(clist(cnat(x) for x in stk) for stk in stacks)}, {f})")
        ttxt += f"Definition shipped_{st} : table := {ctable(A, st)}.\nDefinition traces_{st} : list (list positive * list (list nat) * trace_end) := {clist(items)}.\n"
        ttxt += (f"Lemma driver_model_agrees_{st} : forallb (trace_ok rules shipped_{st} {cpos(sid['$END'])} 200%nat) traces_{st} = true.\nProof. vm_compute. reflexivity. Qed.\n")
    out2 = c.run_coq({"Run_driver": ttxt})
    ok2, log2 = out2["Run_driver"]
    c.oblige(f"Run_driver.driver_model_agrees_* (Model/LR.v = the shipped module's ParserState.feed_token on {ncases} token sequences: state stack after every token, accept / reject position)", ok2, log2[-800:])
    c.cov["driver_traces"] = ncases
    # ---------------- differential: both real parsers on generated strings (accepted and rejected)
    strings = gen_strings(rng, 1500 if quick else 30000)
    cand = []
    if diff is not None:
        kind, path, sym = diff
        # the access path to the first differing state, spelled with sample lexemes, followed by the differing symbol
        if isinstance(path, list):
            words = [SAMPLE.get(s) for s in path[1:] if s in SAMPLE] + ([SAMPLE[sym]] if sym in SAMPLE else [])
            base = " ".join(w for w in words if w)
            cand += [base, base + " m", base + "^2", base + " / s", "5 " + base, base + " * s"]
        c.cov["first_table_difference"] = {"kind": kind, "access_path": path, "symbol": sym}
    # grammar / table differences often concern one terminal: strings around every terminal sample
    if not ok or diff is not None or A["terminals"] != B["terminals"] or A["rules"] != B["rules"]:
        for a in SAMPLE.values():
            for b in SAMPLE.values():
                for cc in ("", "m", "5 m", "m/s"):
                    cand += [f"{cc}{a}{b}", f"{cc} {a} {b}", f"{a}{cc}{b}", f"{a} {b} {cc}"]
        for ch in "abcxyzABCÅΩωαμ°.-()ₐₜ☉1_2,;:'\"!?#@&+=<>[]{}|~`\\$%é":
            cand += [ch, f"5 {ch}", f"{ch}m", f"m{ch}", f"m/{ch}", f"m^{ch}"]
    # terminals whose definitions differ: find characters / short lexemes on which the two regular expressions disagree
    ta = {t[0]: t for t in A["terminals"]}; tb = {t[0]: t for t in B["terminals"]}
    for name in sorted(set(ta) | set(tb)):
        if ta.get(name) == tb.get(name): continue
        import re as _re
        try:
            pa = _re.compile(ta[name][2]) if name in ta else None; pb = _re.compile(tb[name][2]) if name in tb else None
        except Exception:  # noqa
            continue
        universe = [chr(i) for i in list(range(32, 0x250)) + list(range(0x370, 0x400)) + list(range(0x2070, 0x20A0)) + list(range(0x2200, 0x2300)) + [0x2609, 0x00B7, 0x2219, 0x22C5, 0x2022, 0x00D7]]
        lex = universe + ["^" + x for x in ("1", "-1", "+1", "a", "")] + ["⁻" + x for x in "⁰¹²"] + [x + y for x in "+-" for y in ("1", "1.5", ".5", "1e3")] + ["1.5", "1e3", "1.", ".5"]
        for w in lex:
            ma = bool(pa and pa.fullmatch(w)); mb = bool(pb and pb.fullmatch(w))
            if ma != mb:
                cand += [w, f"m{w}", f"m{w}s", f"m {w} s", f"5 m{w}s", f"5{w}", f"5{w} m", f"{w}m", f"m/{w}"]
        c.cov.setdefault("terminals_that_differ", []).append(name)
    # every Unicode whitespace / separator / control character around and inside otherwise valid inputs (the grammar ignores only its own WS)
    import unicodedata
    ws = [chr(i) for i in range(0x3100) if chr(i).isspace() or unicodedata.category(chr(i)) in ("Zs", "Zl", "Zp", "Cc", "Cf")]
    for ch in ws:
        cand += [f"{ch}m", f"m{ch}", f"5 m{ch}", f"{ch}5 m", f"m{ch}s", f"5{ch}m", f"m /{ch}s"]
    ndiff = 0
    acc = rej = 0
    for s in cand + strings:
        for start in ("unit", "quantity"):
            ra, rb = run_parser(ShippedP, start, s), run_parser(FreshP, start, s)
            if PkgP is not None:
                rp = run_parser(PkgP, start, s)
                if rp != ra and ra == rb: ra = rp      # report the in-package parser when only it deviates
            c.count([start, s], nontrivial=True)
            if ra[0] == "ok": acc += 1
            else: rej += 1
            same = (ra[0] == rb[0]) and (ra[0] == "err" or ra[1] == rb[1])
            if not same:
                ndiff += 1
                c.violation(f"differs:{start}:{ra[0]}:{rb[0]}", f"start={start}, input {s!r}: shipped parser -> {ra[:2]}, parser built from the grammar -> {rb[:2]}",
                            {"start": start, "input": s, "shipped": ra, "fresh": rb,
                             "how": "measured._parser.Parser().parse(input, start=start) vs the parser generated by `python -m lark.tools.standalone --start unit --start quantity measured.lark`"})
    c.cov["accepted"] = acc; c.cov["rejected"] = rej
    # ---------------- one parser object used for two parses that overlap in time (another thread parses, with the other start symbol, while
    # this one is in the middle of its parse): each still answers as the parser built from the grammar does
    import threading
    def nested(P, modfile, a, b, k):
        reached, resume, cnt, res_a = threading.Event(), threading.Event(), [0], [None]
        def glob(frame, event, arg):
            if event == "call" and frame.f_code.co_filename == modfile:
                cnt[0] += 1
                if cnt[0] == k: reached.set(); resume.wait(5)
            return None
        def body():
            sys.settrace(glob)
            try: res_a[0] = run_parser(P, *a)
            finally:
                sys.settrace(None); reached.set()
        t = threading.Thread(target=body, daemon=True); t.start(); reached.wait(5)
        res_b = run_parser(P, *b)
        resume.set(); t.join(5)
        return res_a[0], res_b, cnt[0]
    shipped_file = os.path.join(SRCDIR, "_parser.py")
    pairs_ = [(("unit", "m/s"), ("quantity", "5 m")), (("quantity", "2.5 kg m^2/s^2"), ("unit", "K")), (("unit", "kg⋅m²"), ("unit", "s⁻¹")),
              (("quantity", "5 m"), ("quantity", "7 s")), (("unit", "m//s"), ("quantity", "5 m")), (("quantity", "5"), ("unit", "m s"))]
    nn = 0
    for P_, file_ in ((ShippedP, shipped_file),) + (((PkgP, pkg_parser.__file__),) if PkgP is not None else ()):
        for a_, b_ in pairs_:
            want_a, want_b = run_parser(FreshP, *a_), run_parser(FreshP, *b_)
            k_, total = 1, 2
            while k_ <= total and k_ <= 400:
                ra_, rb_, total = nested(P_, file_, a_, b_, k_)
                nn += 1
                c.count(["overlapping-parses", a_, b_, k_, file_ == shipped_file], nontrivial=True)
                if ra_ != want_a or rb_ != want_b:
                    c.violation("differs:overlapping-parses", f"parse{a_} paused at its call number {k_} inside _parser.py while the same parser object parsed {b_}: got {ra_[:2]} and {rb_[:2]}, "
                                f"the parser built from the grammar gives {want_a[:2]} and {want_b[:2]}", {"first": a_, "second": b_, "paused_at_call": k_, "shipped": [ra_, rb_], "fresh": [want_a, want_b]})
                    break
                k_ += 1 if c.tier != "quick" else 3
    c.cov["overlapping_parses"] = nn
    # ---------------- the character-level model (Model/Lex.v + Model/LR.v) against the shipped parser: text -> tree / exception class
    import lexgen
    try:
        ltxt, nid, order_names = lexgen.model(A, sid, allrules)
        c.cov["terminal_order"] = order_names
        # the side conditions of C16_every_text other than the tables: both artefacts give the scanner and the tree builder the same data
        try:
            ltxtB, nidB, _ = lexgen.model(B, sid, allrules)
            for nm in ("lex_order", "lex_ignore", "rule_infos", "filtered", "str_texts", "no_embedded", "shape_SYMBOL", "shape_WS", "SYMBOL_is_class_plus", "WS_is_class_plus"):
                ltxtB = re.sub(r"\b%s\b" % nm, nm + "_B", ltxtB)
            gl = (LHEADER + "From Coq Require Import NArith.\nFrom Measured Require Import Model.Lex Proofs.LexFacts.\n" + ltxt + ltxtB +
                  "Lemma lexdata_equal : lex_order = lex_order_B /\\ lex_ignore = lex_ignore_B /\\ rule_infos = rule_infos_B /\\ filtered = filtered_B.\n"
                  "Proof. repeat split; reflexivity. Qed.\n")
            okl, logl = c.run_coq({"Gen_lexdata": gl})["Gen_lexdata"]
            c.oblige("Gen_lexdata.lexdata_equal / no_embedded (the shipped and the regenerated artefact give the scanner the same terminal definitions in the same order, the same "
                     "ignore list, and the tree builder the same rule options; no string terminal is embedded in a regular-expression one)", okl and nid == nidB, logl[-800:])
        except lexgen.Untranslatable as ex:
            c.oblige("Gen_lexdata (the regenerated artefact's terminals are inside the translator's subset)", False, f"untranslatable: {ex}")
        texts = list(dict.fromkeys(cand + strings))
        junk_alphabet = "mskgKΩμ°.-()ₐ☉1 5+-2.eE^⁻²³*/⋅\t\n _@é"
        for _ in range(300 if quick else 5000):
            texts.append("".join(rng.choice(junk_alphabet) for _ in range(rng.randint(0, 9))))
        texts = list(dict.fromkeys(texts))[: (1400 if quick else 20000)]
        ERR = {"UnexpectedCharacters": "PUnexpectedCharacters", "UnexpectedToken": "PUnexpectedToken"}
        items, skipped_txt = {st: [] for st in A["start_states"]}, 0
        for s_ in texts:
            for st in sorted(A["start_states"]):
                r_ = run_parser(ShippedP, st, s_)
                try:
                    if r_[0] == "ok": e_ = f"(PTree {lexgen.coq_tree(r_[1], sid, nid)})"
                    elif r_[1] in ERR: e_ = ERR[r_[1]]
                    else: raise lexgen.Untranslatable(r_[1])
                    items[st].append(f"({lexgen.ctext(s_)}, {e_})")
                except lexgen.Untranslatable:
                    skipped_txt += 1
        rules_coq2 = clist(f"(MkRule {cpos(sid[r[0]])} {cnat(len(r[1]))})" for r in allrules)
        head = (LHEADER + "From Coq Require Import NArith.\nFrom Measured Require Import Model.Lex Proofs.LexFacts.\n" + ltxt +
                f"Definition rules : list rule := {rules_coq2}.\nDefinition terminals : list positive := {terminals}.\n")
        files = {}
        shard = 350
        nshards = 0
        for st in sorted(A["start_states"]):
            for k in range(0, len(items[st]), shard):
                files[f"Run_text_{st}_{k // shard}"] = (head + f"Definition T : table := {ctable(A, st)}.\n"
                    f"Definition cases : list (text * presult) := {clist(items[st][k:k + shard])}.\n"
                    f"Definition ok (c : text * presult) : bool := presult_eqb (parse_text lex_order lex_ignore rules rule_infos filtered terminals {cpos(sid['$END'])} T (fst c)) (snd c).\n"
                    "Definition mm := Eval vm_compute in map fst (filter (fun ic => negb (ok (snd ic))) (combine (seq 0 (length cases)) cases)).\nPrint mm.\n"
                    "Lemma run_agrees : mm = [].\nProof. vm_compute. reflexivity. Qed.\n")
                nshards += 1
        outs = c.run_coq(files)
        nbad = 0
        for name, (ok_, log_) in sorted(outs.items()):
            mm = re.search(r"mm =\s*(\[[^\]]*\])", log_, re.S)
            bad = [int(t) for t in re.findall(r"\d+", mm.group(1))] if mm else []
            c.oblige(f"{name}.run_agrees (character-level model = measured._parser.Parser().parse on {shard} texts: same tree, or the same of UnexpectedCharacters / UnexpectedToken)",
                     ok_, (f"mismatching texts {bad[:6]}" if bad else log_[-800:]))
            nbad += len(bad)
        c.cov["text_model"] = {"texts": len(texts), "cases": sum(len(v) for v in items.values()), "outside_model": skipped_txt, "mismatches": nbad}
    except lexgen.Untranslatable as ex:
        c.oblige("lexgen (translator of the terminals' regular expressions and the rules' tree options)", False, f"untranslatable: {ex}")
    c.sample({"input": strings[0], "shipped": run_parser(ShippedP, "unit", strings[0])}); c.sample({"input": strings[5], "shipped": run_parser(ShippedP, "quantity", strings[5])})
    c.finish(rule="tables: exhaustive over all states and entries of both LALR tables, all rules, terminals and the semantically relevant options (Coq obligations, "
                  "regenerated every run from _parser.DATA/MEMO and from the generator's output on measured.lark). strings: grammar-generated units and quantities with "
                  "every spelling, token-level damage, random characters, and (when the tables differ) the access path of the first difference; both start symbols; "
                  "outcome = accept with identical tree / reject; distinct by hash",
             extra={"traces_validated_against_impl": len(strings) * 2, "disagreements_checked": ndiff, "exhaustive": True,
                    "lark_versions": {"shipped_runtime": getattr(shipped_mod, "__version__", "?"), "generator": getattr(fresh_mod, "__version__", "?")}},
             assumptions=["modelled, not verified: Lark's runtime (the LALR driver and contextual lexer are modelled in Model/LR.v; the regex scanner and the tree callbacks are "
                          "parameters of the theorem)", "the generator is the installed Lark (1.3.1); the shipped module embeds Lark 1.1.2's runtime",
                          "terminal width upper bounds are capped at 2^31 before comparison (4294967295 vs sre MAXREPEAT differ between Python versions, with no effect on matching)"])

if __name__ == "__main__":
    guarded(main, "C16")
