"""C12 — comparisons are coherent: symmetric ==, physical total order, hash agrees."""
import sys, os
sys.path.insert(0, os.path.dirname(os.path.abspath(__file__)))
from common import *
import qgen, qdriver
from qdriver import FAMILIES

MAGS = [["int", "3", "1"], ["int", "-2", "1"], ["int", "0", "1"], ["int", "1000", "1"], ["int", "1", "1"], ["float", "5", "2"], ["float", "-7", "4"],
        ["float", "1", "8"], ["float", "1000", "1"], ["dec", "5", "4"], ["dec", "-3", "1"], ["dec", "1000", "1"], ["int", "12", "1"], ["int", "36", "1"]]

def dec_prefix_tie(l, r):
    """equal physical values, one magnitude a Decimal and the other not, on prefixed units: the comparison multiplies the Decimal by
    Decimal(float prefix value) and the other by the float itself, so it is decided by rounding (1000 mL vs Decimal(1000) mL) - a
    floating-point tie in the sense of the property"""
    kinds = {l["m"][0], r["m"][0]}
    return "dec" in kinds and len(kinds) > 1 and (l["u"]["p"] != [0, 0] or r["u"]["p"] != [0, 0])

def main():
    c = Check("C12")
    c.static_theorems()
    rng = c.rng
    O = qdriver.Oracle()
    npairs = 220 if c.tier == "quick" else 4000
    cases, groups = [], []
    for _ in range(npairs):
        fam = rng.choice(FAMILIES)
        a = {"t": "qty", "m": rng.choice(MAGS), "u": rng.choice(fam)}
        b = {"t": "qty", "m": rng.choice(MAGS), "u": rng.choice(fam)}
        if rng.random() < 0.25:      # equal by construction: same magnitude, kilo vs 1000
            u = rng.choice([f for f in fam if f[0][0] is None])
            a = {"t": "qty", "m": ["int", "1", "1"], "u": [["kilo", u[0][1], u[0][2]]] + u[1:]} if u[0][2] == 1 and len(u) == 1 else a
            b = {"t": "qty", "m": ["int", "1000", "1"], "u": u} if u[0][2] == 1 and len(u) == 1 else b
        start = len(cases)
        for op in ("eq", "ne", "lt", "le", "gt", "ge"):
            cases.append({"op": op, "l": a, "r": b}); cases.append({"op": op, "l": b, "r": a})
        cases.append({"op": "eq", "l": a, "r": a})
        cases.append({"op": "hash_eq", "l": a, "r": b})
        groups.append((start, a, b))
    # equal quantities in ONE unit whose magnitudes are written differently (1, 1.0, Decimal('1.0'), Decimal('1.000'); 2.5 and Decimal('2.50');
    # 0, 0.0, -0.0; 1000 and 1E+3): they compare equal, so they hash alike
    SAME = [(["int", "1", "1"], ["float", "1", "1"]), (["int", "1", "1"], ["dec", "1", "1"]), (["float", "5", "2"], ["dec", "5", "2"]), (["int", "0", "1"], ["float", "0", "1"]),
            (["int", "1000", "1"], ["dec", "1000", "1"]), (["float", "1000", "1"], ["int", "1000", "1"]), (["int", "-7", "1"], ["float", "-7", "1"]), (["dec", "3", "1"], ["float", "3", "1"])]
    for fam in FAMILIES[:6]:
        for u in fam[:3]:
            for ma, mb in SAME:
                a = {"t": "qty", "m": ma, "u": u}; b = {"t": "qty", "m": mb, "u": u}
                start = len(cases)
                for op in ("eq", "ne", "lt", "le", "gt", "ge"):
                    cases.append({"op": op, "l": a, "r": b}); cases.append({"op": op, "l": b, "r": a})
                cases.append({"op": "eq", "l": a, "r": a}); cases.append({"op": "hash_eq", "l": a, "r": b})
                groups.append((start, a, b))
    # ---- coherence on offset scales (zero and equal readings included) and after an equivalence has been declared twice
    def table(payload, pairs, tag, value_of=None, exact=False, tie=Fraction(1, 10**6)):
        ops = ("eq", "ne", "lt", "le", "gt", "ge")
        cs = []
        for a, b in pairs:
            for op in ops:
                cs.append({"op": op, "a": a, "b": b}); cs.append({"op": op, "a": b, "b": a})
        res = impl("convsys_worker.py", dict(payload, cases=cs))["results"]
        for i, (a, b) in enumerate(pairs):
            R = {}
            for k, op in enumerate(ops):
                R[op] = res[12 * i + 2 * k]; R[op + "'"] = res[12 * i + 2 * k + 1]
            c.count([tag, a, b], nontrivial=True)
            repl = {"scenario": tag, "a": a, "b": b, "truth_table": R, "setup": {k: v for k, v in payload.items() if k in ("define", "decls")}}
            if any("err" in x for x in R.values()):
                c.violation(f"raises:compare:{tag}", f"comparison raised: {R}", repl); continue
            g = lambda k: R[k]["bool"]
            if value_of:
                va, vb = value_of(a), value_of(b)
                if va != vb and abs(va - vb) < tie * max(abs(va), abs(vb), 1): continue
                if va == vb and a["u"] != b["u"] and not exact: continue        # exact ties reached through floats (exact: every ratio is a power of two)
                if g("lt") != (va < vb) or g("eq") != (va == vb):
                    c.violation(f"physical-order:{tag}", f"order disagrees with the physical values {float(va)} vs {float(vb)}", repl)
            if g("eq") != g("eq'"): c.violation(f"eq-symmetric:{tag}", "a == b differs from b == a", repl)
            if g("ne") == g("eq"): c.violation(f"ne-not-eq:{tag}", "a != b is not the negation of a == b", repl)
            if [g("lt"), g("eq"), g("gt")].count(True) != 1: c.violation(f"trichotomy:{tag}", f"not exactly one of <, ==, > holds: {g('lt')},{g('eq')},{g('gt')}", repl)
            if g("le") != g("ge'") or g("ge") != g("le'") or g("lt") != g("gt'") or g("gt") != g("lt'"):
                c.violation(f"mirror:{tag}", "<= / >= / < / > do not mirror each other under argument swap", repl)
    KELVIN = {"kelvin": (Fraction(1), Fraction(0)), "celsius": (Fraction(1), Fraction("273.15")), "Rankine": (Fraction(5, 9), Fraction(0)), "fahrenheit": (Fraction(5, 9), Fraction("459.67") * Fraction(5, 9))}
    def kval(q):
        a_, b_ = KELVIN[q["u"][0][1]]
        return a_ * Fraction(int(q["m"][1]), int(q["m"][2])) + b_
    tp = []
    for s1 in KELVIN:
        for s2 in KELVIN:
            for x, y in ((0, 0), (0, 5), (100, 100), (-40, -40), (300, 27), (32, 0), (0, 32)):
                tp.append(({"m": ["int", str(x), "1"], "u": [[None, s1, 1]]}, {"m": [rng.choice(["int", "float"]), str(y), "1"], "u": [[None, s2, 1]]}))
                if (x, y) in ((0, 5), (300, 27), (-40, -40), (0, 32)):      # Decimal readings on both sides, and negative ones against non-negative ones
                    tp.append(({"m": ["dec", str(x), "1"], "u": [[None, s1, 1]]}, {"m": ["dec", str(y), "1"], "u": [[None, s2, 1]]}))
                    tp.append(({"m": [rng.choice(["int", "float", "dec"]), "-10", "1"], "u": [[None, s1, 1]]}, {"m": [rng.choice(["int", "float"]), str(abs(y) + 5), "1"], "u": [[None, s2, 1]]}))
    table({"systems": True}, tp, "temperature", kval)
    # readings on different scales that are close but not equal (1e-9 .. 1e-10 of the temperature apart: a million times float rounding):
    # exactly the one of <, ==, > the exact values dictate
    def fl_(x):
        n_, d_ = float(x).as_integer_ratio(); return ["float", str(n_), str(d_)]
    near = []
    for x in (300.0, 1234.5, 77.25):
        for g in (3e-7, 1e-7, -2e-7, 4e-8):
            near.append(({"m": fl_(x), "u": [[None, "kelvin", 1]]}, {"m": fl_(x - 273.15 + g), "u": [[None, "celsius", 1]]}))
            near.append(({"m": fl_(x * 9 / 5 + g), "u": [[None, "Rankine", 1]]}, {"m": fl_(x), "u": [[None, "kelvin", 1]]}))
            near.append(({"m": fl_((x - 273.15) * 9 / 5 + 32 + g), "u": [[None, "fahrenheit", 1]]}, {"m": fl_(x - 273.15), "u": [[None, "celsius", 1]]}))
    table({"systems": True}, near, "temperature-near", kval, tie=Fraction(1, 10**11))
    # dimensionless units in the numerator of a rate or of a power (angular rates, solid angles): the order is the physical one
    import math
    PI = Fraction(math.pi)
    exp0 = impl("export_worker.py", {})
    ANG = {"radian": Fraction(1), "degree": PI / 180, "arcminute": PI / 10800, "gradian": PI / 200}
    TIMES = {"second": Fraction(1), "minute": Fraction(60), "hour": Fraction(3600)}
    def aval(q_):
        v = Fraction(int(q_["m"][1]), int(q_["m"][2]))
        for p_, n_, e_ in q_["u"]:
            v *= (ANG.get(n_) or TIMES.get(n_) or Fraction(1)) ** e_ * (1000 if p_ == "kilo" else (Fraction(1, 1000) if p_ == "milli" else 1)) ** e_
        return v
    arate = [u_ for u_ in ([[None, "radian", 1], [None, "second", -1]], [[None, "degree", 1], [None, "second", -1]], [[None, "degree", 1], [None, "minute", -1]], [[None, "arcminute", 1], [None, "second", -1]],
                           [["milli", "radian", 1], [None, "second", -1]], [[None, "degree", 1], [None, "hour", -1]]) if all(n_ in exp0["unit_by_name"] for _, n_, _ in u_)]
    solid = [u_ for u_ in ([[None, "degree", 2]], [[None, "radian", 2]], [[None, "arcminute", 2]]) if all(n_ in exp0["unit_by_name"] for _, n_, _ in u_)]
    ap = []
    for fam_ in (arate, solid):
        for ua in fam_:
            for ub in fam_:
                if ua == ub: continue
                for x, y in ((1, 30), (30, 1), (2000, 1), (1, 1), (7, 400)):
                    ap.append(({"m": ["int", str(x), "1"], "u": ua}, {"m": [rng.choice(["int", "float"]), str(y), "1"], "u": ub}))
    if c.tier == "quick": ap = rng.sample(ap, min(len(ap), 70))
    table({"systems": True}, ap, "angular", aval)
    # the same pair declared twice (from both sides), the later declaration wins in both directions
    define = [["zzq0", [[1, 1]]], ["zzq1", [[1, 1]]], ["zzq2", [[1, 1]]]]
    decls = [[[[None, "zzq0", 1]], ["float", "3", "4"], [[None, "zzq1", 1]]], [[[None, "zzq0", 1]], ["float", "1", "2"], [[None, "zzq1", 1]]],
             [[[None, "zzq2", 1]], ["int", "4", "1"], [[None, "zzq1", 1]]], [[[None, "zzq1", 1]], ["float", "1", "8"], [[None, "zzq2", 1]]]]
    size = {"zzq1": Fraction(1), "zzq0": Fraction(1, 2), "zzq2": Fraction(8)}
    rp = []
    for ua in size:
        for ub in size:
            for x, y in ((2, 2), (3, 1), (1, 16), (31, 16), (0, 0), (5, 40)):
                rp.append(({"m": ["int", str(x), "1"], "u": [[None, ua, 1]]}, {"m": ["float", str(y), "1"], "u": [[None, ub, 1]]}))
    table({"systems": False, "define": define, "decls": decls}, rp, "redeclared", lambda q: Fraction(int(q["m"][1]), int(q["m"][2])) * size[q["u"][0][1]])
    # pairs the planner converts from one side only (a volume declared as a cube against a volume reached through a named unit, like
    # hubble volume against cup among the shipped units): == and the order must not depend on which side finds the route
    U1 = lambda n, e=1: [[None, n, e]]
    define1 = [["vmeter", [[1, 1]]], ["vell", [[1, 1]]], ["vvat", [[1, 3]]], ["vtun", [[1, 3]]], ["vstere", [[1, 3]]]]
    decls1 = [[U1("vell"), ["int", "2", "1"], U1("vmeter")], [U1("vvat"), ["int", "1", "1"], U1("vell", 3)],
              [U1("vstere"), ["int", "1", "1"], U1("vmeter", 3)], [U1("vtun"), ["int", "4", "1"], U1("vstere")]]
    size1 = {"vvat": Fraction(8), "vtun": Fraction(4), "vstere": Fraction(1)}
    op1 = []
    for ua in size1:
        for ub in size1:
            if ua == ub: continue
            for x in (1, 2, 3, 8):
                for y in (1, 2, 4, 16):
                    op1.append(({"m": ["int", str(x), "1"], "u": U1(ua)}, {"m": [rng.choice(["int", "float"]), str(y), "1"], "u": U1(ub)}))
    table({"systems": False, "define": define1, "decls": decls1}, op1, "one-sided", lambda q: Fraction(int(q["m"][1]), int(q["m"][2])) * size1[q["u"][0][1]], exact=True)
    # the same systems when the application compared the new units before declaring how they relate (each comparison then failed or
    # said "not equal"): afterwards the order is the declared one all the same
    table({"systems": False, "define": define1, "decls": decls1, "compare_before": True}, op1[::3], "compared-before-declared",
          lambda q: Fraction(int(q["m"][1]), int(q["m"][2])) * size1[q["u"][0][1]], exact=True)
    define2 = [["vfell", [[1, 1]]], ["vfcubit", [[1, 1]]], ["vfspan", [[1, 1]]]]
    decls2 = [[U1("vfell"), ["float", "1", "2"], U1("vfcubit")], [U1("vfspan"), ["float", "1", "4"], U1("vfell")]]
    size2 = {"vfcubit": Fraction(1), "vfell": Fraction(1, 2), "vfspan": Fraction(1, 8)}
    cb = []
    for ua in size2:
        for ub in size2:
            for pa in (None, "kilo"):
                for x, y in ((2, 1), (1, 4), (8, 1), (3, 3), (0, 0), (16, 2)):
                    cb.append(({"m": ["int", str(x), "1"], "u": [[pa, ua, 1]]}, {"m": [rng.choice(["int", "float"]), str(y), "1"], "u": [[None, ub, 1]]}))
    table({"systems": True, "define": define2, "decls": decls2, "compare_before": True}, cb, "compared-before-declared",
          lambda q: Fraction(int(q["m"][1]), int(q["m"][2])) * size2[q["u"][0][1]] * (1000 if q["u"][0][0] == "kilo" else 1), exact=True)
    recs = qdriver.run(cases)
    for start, a, b in groups:
        R = {}
        for k, op in enumerate(("eq", "ne", "lt", "le", "gt", "ge")):
            R[op] = recs[start + 2 * k]["res"]; R[op + "'"] = recs[start + 2 * k + 1]["res"]
        refl = recs[start + 12]["res"]; h = recs[start + 13]["res"]
        la, lb = recs[start]["l"], recs[start]["r"]
        va, vb = O.si(la), O.si(lb)
        c.count([a, b], nontrivial=(a["u"] != b["u"]))
        repl = {"a": a, "b": b, "truth_table": R}
        if any("err" in x for x in R.values()):
            c.violation("raises:compare", f"comparison of convertible quantities raised: {R}", repl); continue
        tie = va and vb and va[0] != vb[0] and qdriver.rel_close(va[0], vb[0], Fraction(1, 10**7))
        exact_tie_via_float = va and vb and va[0] == vb[0] and (la["u"]["f"] != lb["u"]["f"] or dec_prefix_tie(la, lb))
        if tie or exact_tie_via_float: continue
        g = lambda k: R[k]["b"]
        if refl != {"t": "bool", "b": True}: c.violation("eq-reflexive", f"a == a is {refl}", repl)
        if g("eq") != g("eq'"): c.violation("eq-symmetric", "a == b differs from b == a", repl)
        if g("ne") == g("eq"): c.violation("ne-not-eq", "a != b is not the negation of a == b", repl)
        if [g("lt"), g("eq"), g("gt")].count(True) != 1: c.violation("trichotomy", f"not exactly one of <, ==, > holds: {g('lt')},{g('eq')},{g('gt')}", repl)
        if g("le") != g("ge'") or g("ge") != g("le'") or g("lt") != g("gt'") or g("gt") != g("lt'"):
            c.violation("mirror", "<= / >= / < / > do not mirror each other under argument swap", repl)
        if va and vb and va[1] == vb[1]:
            if g("lt") != (va[0] < vb[0]) or g("eq") != (va[0] == vb[0]):
                c.violation("physical-order", f"order disagrees with physical values {float(va[0])} vs {float(vb[0])}", repl)
        if h.get("t") == "hash" and h["eq"] and not h["hash_eq"]:
            same_obj = la["u"]["o"] == lb["u"]["o"]
            c.violation("hash-differs-across-units" if not same_obj else "hash-differs-same-unit",
                        f"a == b but hash(a) != hash(b) for {a} and {b}", repl)
    # sorting mixed-unit lists orders them physically: follows from the pairwise order above; checked on lists too
    convtbl = O.conv_pairs(recs)
    keep = []
    for i, (case, rec) in enumerate(zip(cases, recs)):
        if case["op"] == "hash_eq": continue
        vl, vr = O.si(rec["l"]), O.si(rec["r"])
        if vl and vr and vl[0] != vr[0] and qdriver.rel_close(vl[0], vr[0], Fraction(1, 10**7)): continue
        if vl and vr and vl[0] == vr[0] and (rec["l"]["u"]["f"] != rec["r"]["u"]["f"] or dec_prefix_tie(rec["l"], rec["r"])): continue
        keep.append(i)
    bad = qgen.run_shards(c, "C12", [cases[i] for i in keep], [recs[i] for i in keep], convtbl)
    for i in bad[:5]:
        c.cov.setdefault("model_impl_mismatches", []).append({"case": cases[keep[i]], "impl": recs[keep[i]]["res"]})
    # ---- measurements, approximately(...) and levels: x == y exactly when y == x
    mcases = []
    nm = 400 if c.tier == "quick" else 6000
    def meas():
        fam = rng.choice(FAMILIES[:5])
        r = rng.random()
        m = rng.choice(MAGS[:9])
        if r < 0.55: return {"t": "meas", "m": m, "s": rng.choice([["int", "0", "1"], ["int", "1", "1"], ["int", "3", "1"], ["float", "1", "4"], ["float", "5", "1"]]), "u": rng.choice(fam)}, fam
        if r < 0.75: return {"t": "qty", "m": m, "u": rng.choice(fam)}, fam
        return {"t": "approx", "m": m, "u": rng.choice(fam), "w": rng.choice([["float", "1", "1000"], ["float", "1", "10"]])}, fam
    for _ in range(nm):
        x, fam = meas()
        y, _ = meas()
        if rng.random() < 0.8: y["u"] = rng.choice(fam)
        if x["t"] == "qty" and y["t"] == "qty": x["t"] = "meas"; x["s"] = ["int", "1", "1"]
        mcases.append({"op": "eq", "l": x, "r": y})
    for _ in range(nm // 4):
        lv = {"t": "level", "m": rng.choice([["int", "10", "1"], ["int", "0", "1"], ["float", "-3", "1"], ["int", "20", "1"], ["float", "13", "2"]]),
              "log": rng.choice(["decibel", "bel", "neper", "octave"]), "prefix": None, "ref": {"m": ["int", "1", "1"], "u": [[rng.choice([None, "milli"]), "watt", 1]]}}
        other = rng.choice([{"t": "qty", "m": rng.choice([["int", "10", "1"], ["int", "1", "1"], ["float", "1", "2"], ["int", "100", "1"]]), "u": [[rng.choice([None, "kilo"]), "watt", 1]]},
                            {"t": "meas", "m": ["int", "10", "1"], "s": ["int", "1", "1"], "u": [[None, "watt", 1]]},
                            {"t": "level", "m": rng.choice([["int", "10", "1"], ["int", "1", "1"]]), "log": rng.choice(["decibel", "bel"]), "prefix": None, "ref": {"m": ["int", "1", "1"], "u": [[None, "watt", 1]]}}])
        mcases.append({"op": "eq", "l": lv, "r": other})
    # measurements with an uncertainty on two different temperature scales (the uncertainty is a difference, the reading is not): == is symmetric
    TS = ("kelvin", "celsius", "fahrenheit", "Rankine")
    for sa in TS:
        for sb in TS:
            if sa == sb: continue
            for (xa, ua_), (xb, ub_) in ((("0", "1/10"), ("50", "31")), (("20", "1/2"), ("68", "1")), (("300", "5"), ("27", "3")), (("-40", "1"), ("-40", "2")), (("100", "1/4"), ("212", "40"))):
                fr_ = lambda t_: ["float", t_.split("/")[0], t_.split("/")[1]] if "/" in t_ else ["int", t_, "1"]
                mcases.append({"op": "eq", "l": {"t": "meas", "m": fr_(xa), "s": fr_(ua_), "u": [[None, sa, 1]]}, "r": {"t": "meas", "m": fr_(xb), "s": fr_(ub_), "u": [[None, sb, 1]]}})
    mr = impl("meas_worker.py", {"cases": mcases})["results"]
    mtxt = []
    for case, rec in zip(mcases, mr):
        c.count(case, nontrivial=True)
        res, rev = rec["res"], rec.get("rev")
        if "err" in res: 
            c.violation(f"raises:meas-eq:{res['err']}", f"== raised {res['err']} for {case}", {"case": case}); continue
        if rev is not None and res != rev:
            c.violation(f"asymmetric:{case['l']['t']}:{case['r']['t']}", f"x == y is {res.get('b')} but y == x is {rev.get('b')}", {"case": case})
        # interval model on SI values (measurements and quantities only, away from touching intervals)
        def interval(x):
            if x["t"] == "qty": x = dict(x, s=["int", "0", "1"])
            elif x["t"] != "meas": return None
            if len(x["m"]) != 3 or len(x["s"]) != 3: return None
            sz = O.usize(x["u"])
            if sz is None: return None
            return Fraction(int(x["m"][1]), int(x["m"][2])) * sz[0], abs(Fraction(int(x["s"][1]), int(x["s"][2]))) * sz[0], sz[1]
        ia, ib = interval(rec["lc"]), interval(rec["rc"])
        if ia and ib and ia[2] == ib[2] and res.get("t") == "bool":
            d1, d2 = (ib[0] + ib[1]) - (ia[0] - ia[1]), (ia[0] + ia[1]) - (ib[0] - ib[1])
            scale = max(abs(ia[0]), abs(ib[0]), ia[1], ib[1], Fraction(1, 10**30))
            if min(abs(d1), abs(d2)) > Fraction(1, 10**9) * scale:
                mtxt.append(f"(({cQ(ia[0])}, {cQ(ia[1])}), ({cQ(ib[0])}, {cQ(ib[1])}), {'true' if res['b'] else 'false'})")
    txt = f"""From Coq Require Import QArith List Bool. Import ListNotations.
From Measured Require Import Proofs.OrderFacts.
Definition cases : list ((Q * Q) * (Q * Q) * bool) := {clist(mtxt)}.
Definition agrees (c : (Q * Q) * (Q * Q) * bool) : bool :=
  let '((v1, s1), (v2, s2), b) := c in Bool.eqb (meq v1 s1 v2 s2) b.
Lemma run_agrees : forallb agrees cases = true.
Proof. vm_compute. reflexivity. Qed.
"""
    out = c.run_coq({"Run_C12_meas": txt})
    ok, log = out["Run_C12_meas"]
    c.oblige(f"Run_C12_meas.run_agrees (symmetric interval model = implementation's Measurement == on {len(mtxt)} pairs)", ok, log[-500:])
    c.sample({"pair": groups[0][1:], "truth_table": {k: recs[groups[0][0] + 2 * i]["res"] for i, k in enumerate(("eq", "ne", "lt", "le", "gt", "ge"))}})
    c.sample({"measurement_case": mcases[0], "result": mr[0]["res"], "reversed": mr[0].get("rev")})
    c.finish(rule="pairs of quantities of one dimension in convertible units and prefixes, int/float/Decimal magnitudes, a quarter equal by "
                  "construction (1 k-unit vs 1000 unit): full truth tables of == != < <= > >= in both argument orders, a == a, hash; pairs of "
                  "measurements / quantities / approximately(...) / levels for symmetry of ==; comparisons within 1e-7 of a float tie excluded; "
                  "non-trivial = different unit spellings; distinct by hash",
             extra={"pairs": len(groups), "measurement_level_pairs": len(mcases), "traces_validated_against_impl": len(cases) + len(mcases)},
             assumptions=["order laws are conditional on the conversions involved being sound (C04)"])

guarded(main, "C12")
