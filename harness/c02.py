"""C02 — dimensions, prefixes and units are canonical objects forming abelian groups."""
import sys, os
sys.path.insert(0, os.path.dirname(os.path.abspath(__file__)))
from common import *
import unitgen as G
from c01_lib import shard_file, diag_file

def law_group(rng, names, nfresh):
    """a list of expressions, grouped so that members of a group denote the same unit"""
    x = G.gen_expr(rng, rng.randint(0, 2), nfresh, names, mixed_ok=False)
    y = G.gen_expr(rng, rng.randint(0, 2), nfresh, names, mixed_ok=False)
    z = G.gen_expr(rng, rng.randint(0, 1), nfresh, names, mixed_ok=False)
    if rng.random() < 0.15:
        # a prefixed dimensionless unit (every base factor cancelled, or a prefix on One): an element of the group like any other
        base = G.gen_expr(rng, 0, nfresh, names, mixed_ok=False)
        x = ["pre", rng.choice(G.SI_PREFIXES), rng.choice([["div", base, base], ["u", "one"]])]
    a, b = rng.choice([-3, -2, -1, 1, 2, 3]), rng.choice([-3, -2, -1, 0, 1, 2, 3])
    n = rng.choice([-3, -2, -1, 1, 2, 3])
    one = ["u", "one"]
    laws = [
        ("comm", [["mul", x, y], ["mul", y, x]]),
        ("assoc", [["mul", ["mul", x, y], z], ["mul", x, ["mul", y, z]]]),
        ("neutral", [["mul", x, one], x, ["mul", one, x], ["div", x, one]]),
        ("inverse", [["mul", x, ["pow", x, -1]], one, ["div", x, x], ["pow", x, 0]]),
        ("div", [["div", x, y], ["mul", x, ["pow", y, -1]]]),
        ("powadd", [["mul", ["pow", x, a], ["pow", x, b]], ["pow", x, a + b]]),
        ("powmul", [["pow", ["pow", x, a], b], ["pow", x, a * b]]),
        ("rootpow", [["root", ["pow", x, n], n], x]),
        ("powdist", [["pow", ["mul", x, y], a], ["mul", ["pow", x, a], ["pow", y, a]]]),
        ("divdiv", [["div", ["div", x, y], z], ["div", x, ["mul", y, z]], ["div", ["div", x, z], y]]),
        # a prefix multiplies from either side
        ("precomm", (lambda P_: [["pre", P_, x], ["pre", P_, x, "r"]])(rng.choice(G.SI_PREFIXES))),
    ]
    return rng.choice(laws)

def subexprs(e):
    out = []
    for x in e[1:]:
        if isinstance(x, list) and x and isinstance(x[0], str) and x[0] in ("u", "b", "mul", "div", "pow", "root", "pre", "num", "den", "quant", "via"):
            out += subexprs(x)
    out.append(e)
    return out

def main():
    c = Check("C02")
    c.static_theorems()
    # dimension laws up to identity, also after a new fundamental dimension has been defined (fresh process: define re-keys every dimension)
    dl = impl("dimlaws_worker.py", {"define": [["vf currency", "VFC"], ["vf flavour", "VFF"]]})
    for k, v in dl.items():
        if k not in ("fails", "rekey"):
            for i in range(v): c.count(["dimlaw", k, i], nontrivial=True)
    # the re-keying itself against Model/DimDefine.v: the table exported before each definition, pushed through [define], is the table exported after
    rk = dl.get("rekey", [])
    if rk:
        cl_ = lambda keys: clist(clist(cZ(x) for x in k_) for k_ in keys)
        txt_ = ("From Coq Require Import List ZArith. Import ListNotations.\nFrom Measured Require Import Model.DimDefine.\nLocal Open Scope Z_scope.\n"
                + "".join(f"Definition before{i} : dstate := MkDS {r_['fundamental_before']}%nat {cl_(r_['keys_before'])}.\nDefinition after{i} : list (list Z) := {cl_(r_['keys_after'])}.\n" for i, r_ in enumerate(rk))
                + "Lemma rekeyed_as_modelled : " + " /\\ ".join(f"dtable (define before{i}) = after{i}" for i in range(len(rk))) + ".\nProof. vm_compute. repeat split. Qed.\n")
        ok_, log_ = c.run_coq({"Gen_rekey": txt_})["Gen_rekey"]
        c.oblige(f"Gen_rekey.rekeyed_as_modelled (Dimension.define on the implementation = Model/DimDefine.define on the exported intern table, {len(rk)} definitions over {len(rk[0]['keys_before'])} known dimensions)", ok_, log_[-600:])
        for i, r_ in enumerate(rk):
            c.count(["rekey", i], nontrivial=True)
            if not (r_["same_objects"] and r_["keys_are_exponents"]):
                c.violation("rekey:objects", "Dimension.define replaced dimension objects or left a key that is not its object's exponents", {"definition": i, "observed": {k_: r_[k_] for k_ in ("same_objects", "keys_are_exponents")}})
    for f in dl["fails"][:40]:
        c.violation(f"dimension-law:{f[0].split('-')[0]}:{f[1]}", f"dimension law {f[1]} fails ({f[0]}): {f[2:]}", {"when": f[0], "law": f[1], "operands": f[2:],
                    "how": "harness/impl/dimlaws_worker.py: Dimension.define(name, symbol) in a fresh process, then the identities a*b is b*a, a/b is a*b**-1, ... on existing derived dimensions"})
    # a long-running process: units held from the start, a large number of other units computed, the same products again by other routes
    ch = impl("churn_worker.py", {"n": 70000 if c.tier == "quick" else 400000}, timeout=1500)
    c.count(["churn", ch["made"]], nontrivial=True)
    for f in ch["fails"][:10]:
        c.violation(f"twoobjects-after-churn:{f[0]}", f"after {ch['made']} other units had been computed, route {f[1]} to {f[0]} gave {f[2]}, another object than the one obtained at the start ({f[3]})",
                    {"held": f[0], "route": f[1], "other_units_computed": ch["made"], "how": "harness/impl/churn_worker.py"})
    c.cov["units_in_long_process"] = ch["units_known"]
    exp = impl("export_worker.py", {})
    prefixes = exp["prefix_by_name"]
    names = [n for n in G.NAMES if n in exp["unit_by_name"]]
    G.SI_PREFIXES[:] = [p for p in G.SI_PREFIXES if p in prefixes]
    G.IEC_PREFIXES[:] = [p for p in G.IEC_PREFIXES if p in prefixes]
    ngroups = 700 if c.tier == "quick" else 12000
    hists, meta = [], []
    for _ in range(ngroups):
        h = []
        nfresh = 0
        if c.rng.random() < 0.5:
            for _ in range(c.rng.randint(1, 2)):
                h.append(["define", c.rng.choice(G.DIM_POOL)]); nfresh += 1
        law, members = law_group(c.rng, names, nfresh)
        ops = []
        # shuffled evaluation order: some sub-expressions are evaluated first, in random order
        pre = [s for m in members for s in subexprs(m)[:-1]]
        c.rng.shuffle(pre)
        for s in pre[:c.rng.randint(0, 4)]:
            ops.append(["eval", s])
        order = list(range(len(members)))
        c.rng.shuffle(order)
        for i in order:
            ops.append(["eval", members[i]])
        h += ops
        hists.append(h)
        meta.append((law, len(h) - len(members), order, members))
    # fixed groups: high powers of the smallest and largest prefixes (the value of yocto**14 underflows a float and yotta**14 overflows one: the
    # group is about exponents, not values), and every named unit of the registry as a canonical object
    one_ = ["u", "one"]
    deep = []
    for pname in ("yocto", "zepto", "yotta", "milli", "kibi", "yobi"):
        if pname not in prefixes: continue
        x_ = ["pre", pname, ["div", ["u", "meter"], ["u", "second"]]]
        for n_ in (14, 15, 16, 20, 7):
            deep.append(("deep-powadd", [["div", ["pow", x_, n_ + 1], ["pow", x_, n_]], x_]))
            deep.append(("deep-inverse", [["mul", ["pow", x_, n_], ["pow", x_, -n_]], one_]))
            deep.append(("deep-powmul", [["pow", ["pow", x_, n_], -1], ["pow", x_, -n_]]))
            deep.append(("deep-rootpow", [["root", ["pow", x_, n_], n_], x_]))
    for nm in sorted(exp["unit_by_name"]):
        u_ = ["u", nm]
        deep.append(("named-canonical", [u_, ["mul", u_, one_], ["div", u_, one_], ["pow", u_, 1], ["root", ["pow", u_, 2], 2], ["div", ["mul", u_, ["u", "meter"]], ["u", "meter"]]]))
    if c.tier == "quick": deep = [d_ for d_ in deep if d_[0] == "named-canonical"] + c.rng.sample([d_ for d_ in deep if d_[0] != "named-canonical"], 60)
    for law, members in deep:
        order = list(range(len(members)))
        hists.append([["eval", m_] for m_ in members]); meta.append((law, 0, order, members))
    all_items = []
    kinds = {}
    laws_seen = {}
    for b in range(0, len(hists), 200):
        part = hists[b:b + 200]
        r = impl("units_worker.py", {"histories": part, "monitor": False, "refused_first": True})
        envdims = {i: {a: x for a, x in d} for i, d, _ in r["env"]}
        # property monitor: identity classes of the implementation == normal forms of the independent oracle
        by_nf, by_oid = {}, {}
        for hi, (h, res) in enumerate(zip(part, r["results"])):
            law, off, order, members = meta[b + hi]
            laws_seen[law] = laws_seen.get(law, 0) + 1
            outs = []
            for op, rec in zip(h, res):
                c.count(op, nontrivial=(op[0] == "eval" and G.expr_size(op[1]) > 1))
                rr = rec["res"]
                if op[0] != "eval":
                    continue
                try:
                    p, f, d = G.oracle(op[1], rec["leaves"], prefixes, envdims)
                    nf = json.dumps([list(p), sorted(f.items())])
                except G.Frac:
                    nf = "Frac"
                except G.Mixed:
                    nf = None
                if nf is None:
                    continue
                if nf == "Frac" or "err" in rr:
                    if not (nf == "Frac" and rr.get("err") == "FractionalDimensionError"):
                        c.violation("outcome:" + json.dumps(op[1]), f"expression should give {nf} but implementation gives {rr}",
                                    {"history": h})
                    continue
                o = rr["o"]
                if by_nf.setdefault(nf, (o, op[1]))[0] != o:
                    c.violation("twoobjects:" + nf, f"two expressions denoting {nf} evaluate to different objects",
                                {"history": h, "first": by_nf[nf][1], "second": op[1]})
                if by_oid.setdefault(o, (nf, op[1]))[0] != nf:
                    c.violation("oneobject:" + nf, f"one object returned for two different normal forms {nf} / {by_oid[o][0]}",
                                {"history": h, "first": by_oid[o][1], "second": op[1]})
            items, _ = G.coq_history(h, res, prefixes, None)
            all_items.append(items)
            if b == 0 and hi < 3:
                c.sample({"law": law, "history": h})
    env0 = exp["env"]
    shard = 120
    files = {f"Run_C02_{s // shard}": shard_file(env0, all_items[s:s + shard]) for s in range(0, len(all_items), shard)}
    outs = c.run_coq(files)
    for n, (ok, log) in sorted(outs.items()):
        c.oblige(f"{n}.run_agrees (normal forms, errors and identity classes of model = implementation)", ok, log[-800:])
        if not ok:
            s = int(n.split("_")[-1]) * shard
            okd, dlog = c.coq_eval(n + "_diag", diag_file(env0, all_items[s:s + shard]))
            m = re.search(r"=\s*\[(.*?)\]", dlog, re.S)
            idx = [int(x) for x in re.findall(r"\d+", m.group(1))] if m else []
            c.cov.setdefault("mismatching_histories", []).extend(hists[s + i] for i in idx[:3])
    # mixed-base prefixes: the same laws numerically within 1e-9
    mixed = impl("prefix_worker.py", {"seed": c.seed, "n": 400 if c.tier == "quick" else 5000})
    for v in mixed["bad"]:
        c.violation("mixedprefix:" + v["law"] + ":" + json.dumps(v["args"]), f"mixed-base prefix law {v['law']} off by {v['rel']}", v)
    c.cov["evaluations"] += mixed["n"]
    c.finish(rule="groups of unit expressions that denote one unit by a group law (commutativity, associativity, neutral, "
                  "inverse, quotient, power laws, root of power, distributivity), over registered, derived and freshly "
                  "defined base units and SI prefixes, sub-expressions pre-evaluated in shuffled order; identity classes "
                  "of the implementation compared with an independent free-abelian-group normal form and with the Coq "
                  "model; non-trivial = more than one node; distinct by hash of the operation",
             extra={"law_groups": laws_seen, "mixed_base_prefix_checks": mixed["n"],
                    "traces_validated_against_impl": len(hists)},
             assumptions=["float exponents of mixed-base (SI x IEC) prefixes are outside the exact model; their laws are "
                          "checked numerically at 1e-9 as the property states"])

guarded(main, "C02")
