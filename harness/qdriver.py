"""shared pieces of the quantity-level checks (C06, C11, C12): running cases on the implementation, the exact
SI-value oracle, the conversion table for the model, and the kernel-side comparison"""
from common import *
import qgen
from sizes import Sizes, pval

class Oracle:
    def __init__(self):
        self.exp = impl("export_worker.py", {})
        self.S = Sizes(self.exp)

    def si(self, v):
        """exact SI value (Fraction, generator exponents) of a canonical quantity"""
        if v.get("t") != "qty" or len(v["m"]) != 3 or isinstance(v["u"]["p"], dict):
            return None
        s = self.S.usize(v["u"])
        if s is None: return None
        return Fraction(int(v["m"][1]), int(v["m"][2])) * s[0], s[1]

    def usize(self, u):
        return None if isinstance(u["p"], dict) else self.S.usize(u)

    def conv_pairs(self, recs, ops=("add", "sub", "eq", "ne", "lt", "le", "gt", "ge", "in_unit", "hash_eq")):
        pairs = {}
        for rec in recs:
            l, r = rec.get("l"), rec.get("r")
            for a, b in ((l, r), (r, l)):
                if a and b and a.get("t") == "qty" and b.get("t") in ("qty", "unit"):
                    ua, ub = a["u"], b["u"]
                    if isinstance(ua["p"], dict) or isinstance(ub["p"], dict): continue
                    k = (json.dumps(ua["f"]), json.dumps(ub["f"]))
                    if k not in pairs and ua["f"] != ub["f"] and ua["d"] == ub["d"]:
                        ratio = self.S.ratio({"p": [0, 0], "f": ua["f"]}, {"p": [0, 0], "f": ub["f"]})
                        if ratio is not None: pairs[k] = (ua, ub, ratio)
        return qgen.conv_table(pairs.values())

def rel_close(a, b, tol):
    if a == b: return True
    if b == 0: return abs(a) <= tol
    return abs(a - b) <= tol * abs(b)

def run(cases):
    return impl("quantity_worker.py", {"cases": cases})["results"]

# families of convertible spellings (unit specs) of one dimension; planner-friendly shapes
FAMILIES = [
    [[[None, "meter", 1]], [["kilo", "meter", 1]], [[None, "foot", 1]], [[None, "inch", 1]], [["milli", "meter", 1]], [[None, "yard", 1]], [["kibi", "meter", 1]]],
    [[[None, "second", 1]], [[None, "minute", 1]], [[None, "hour", 1]], [["milli", "second", 1]], [["mebi", "second", 1]]],
    [[[None, "gram", 1]], [[None, "kilogram", 1]], [[None, "pound", 1]], [["kilo", "gram", 1]], [[None, "ounce", 1]]],
    [[[None, "meter", 1], [None, "second", -1]], [["kilo", "meter", 1], [None, "hour", -1]], [[None, "foot", 1], [None, "minute", -1]], [[None, "mile", 1], [None, "hour", -1]]],
    [[[None, "meter", 2]], [[None, "foot", 2]], [["centi", "meter", 2]], [[None, "inch", 2]]],
    [[[None, "joule", 1]], [["kilo", "joule", 1]], [[None, "newton", 1], [None, "meter", 1]], [["kilo", "gram", 1], [None, "meter", 2], [None, "second", -2]]],
    [[[None, "bit", 1]], [[None, "byte", 1]], [["kilo", "bit", 1]], [["kibi", "bit", 1]]],
    [[[None, "liter", 1]], [["milli", "liter", 1]], [[None, "gallon", 1]], [[None, "pint", 1]], [[None, "hogshead", 1]], [[None, "barrel", 1]], [[None, "quart", 1]], [[None, "cup", 1]]],
    # rates whose numerator is a volume unit declared only relative to other volume units (the planner's reverse match)
    [[[None, "liter", 1], [None, "second", -1]], [[None, "barrel", 1], [None, "day", -1]], [[None, "quart", 1], [None, "minute", -1]], [[None, "gallon", 1], [None, "hour", -1]],
     [[None, "cup", 1], [None, "second", -1]]],
    # units several declarations apart, and their pure powers (the path finder's exponent reduction over multi-hop paths)
    [[[None, "hand", 1]], [[None, "fathom", 1]], [[None, "cable", 1]], [[None, "foot", 1]], [[None, "yard", 1]], [[None, "meter", 1]], [[None, "mile", 1]]],
    [[[None, "hand", 2]], [[None, "yard", 2]], [[None, "meter", 2]], [[None, "mile", 2]], [[None, "fathom", 2]]],
    [[[None, "yard", 3]], [[None, "inch", 3]], [[None, "meter", 3]], [[None, "hand", 3]]],
]
