"""C07 — impossible conversions fail only with ConversionNotFound, with or without -O."""
import sys, os
sys.path.insert(0, os.path.dirname(os.path.abspath(__file__)))
from common import *
import convlib, convgen, sizes, synthsys, struct_scan
from convlib import frac, run_block

BAD = ("AssertionError", "KeyError", "ZeroDivisionError", "IndexError", "RecursionError")

def outcome(res):
    if "steps" in res: return [outcome(s) for s in res["steps"]]
    if "err" in res: return ["err", res["err"]]
    if "bool" in res: return ["bool", res["bool"]]
    if "m" in res: return ["m", res["m"]]
    return ["other", res.get("other") or res.get("setup_err")]

def main():
    c = Check("C07")
    c.static_theorems()
    rng = c.rng
    quick = c.tier == "quick"
    # tie A: no assert statement in conversions.py (python -O removes asserts; none can change behaviour)
    try:
        s = struct_scan.scan()
        txt = ("From Coq Require Import List. Import ListNotations.\n"
               f"(* assert statements found in conversions.py: {s['asserts']} *)\n"
               f"Definition asserts_in_conversions : list (nat * nat) := {clist('(%d%%nat, %d%%nat)' % (i, min(l, 4999)) for i, (f, l) in enumerate(s['asserts']))}.\n"
               "Lemma no_asserts_in_conversion_code : asserts_in_conversions = [].\nProof. reflexivity. Qed.\n")
        out = c.run_coq({"Gen_asserts": txt})
        c.oblige("Gen_asserts.no_asserts_in_conversion_code (conversions.py has no assert statement, so -O cannot change it)", out["Gen_asserts"][0],
                 f"assert statements: {s['asserts']}")
    except Exception as ex:
        c.oblige("struct_scan of conversions.py (translator)", False, str(ex))
    stats = {"ok": 0, "cnf": 0, "cmp_false": 0, "cmp_typeerror": 0, "opt_compared": 0}
    def run_both(payload):
        with concurrent.futures.ThreadPoolExecutor(max_workers=2) as ex:
            f1 = ex.submit(impl, "convsys_worker.py", payload); f2 = ex.submit(impl, "convsys_worker.py", payload, True)
            return f1.result(), f2.result()
    def judge(table_desc, cases, r, ro, info):
        for i, (cs, res, reso) in enumerate(zip(cases, r["results"], ro["results"])):
            c.count({"t": str(table_desc)[:40], "case": cs})
            repl = {"table": table_desc, "case": cs, "python": outcome(res), "python -O": outcome(reso)}
            stats["opt_compared"] += 1
            if outcome(res) != outcome(reso):
                c.violation("opt-differs", "python -O changes the outcome", repl)
            e = res.get("err")
            if e in BAD or (e and e.startswith("Other")):
                c.violation(f"exception:{e}", f"{cs.get('op')} raised {e}: {res.get('msg')}", repl); continue
            op = cs.get("op")
            if op == "in_unit":
                if e and e != "ConversionNotFound":
                    c.violation(f"exception:{e}", f"conversion failed with {e} instead of ConversionNotFound", repl)
                stats["cnf" if e else "ok"] += 1
            elif op in ("add", "sub"):
                if e and e not in ("ConversionNotFound", "TypeError"):
                    c.violation(f"exception:{e}", f"{op} failed with {e}", repl)
            elif op in ("eq", "ne"):
                if e: c.violation(f"exception:{e}", f"== raised {e}", repl)
                elif cs.get("disconnected") and res.get("bool") != (op == "ne"):
                    c.violation("eq-true", "== between quantities with no conversion is not False", repl)
                else: stats["cmp_false"] += 1
            else:
                if e and e != "TypeError":
                    c.violation(f"exception:{e}", f"ordering raised {e}", repl)
                elif cs.get("disconnected") and not e:
                    c.violation("order-returns", "ordering between quantities with no conversion returned a value", repl)
                elif e: stats["cmp_typeerror"] += 1
    # ---------------- shipped table: the C04 space (includes many impossible conversions)
    exp0 = impl("export_worker.py", {})
    S = sizes.Sizes(exp0); sp = convgen.Space(exp0, S)
    cases = []
    for _ in range(500 if quick else 6000):
        a, b = sp.pair(rng)
        m = convgen.rand_mag(rng, ("int", "float", "dec"))
        r0 = rng.random()
        if r0 < 0.6: cases.append({"op": "in_unit", "a": {"m": m, "u": a}, "b": b})
        else: cases.append({"op": rng.choice(["eq", "lt", "le", "gt", "add", "sub", "ne", "ge"]), "a": {"m": m, "u": a}, "b": {"m": convgen.rand_mag(rng, ("int", "float", "dec")), "u": b}})
    r, ro = run_both({"systems": True, "cases": cases, "bookkeeping": True})
    conv = [(cs, res) for cs, res in zip(cases, r["results"]) if cs["op"] == "in_unit"]
    run_block(c, "ship", r["export"], [x for x, _ in conv], [y for _, y in conv], Fraction(1, 10**11))
    judge("shipped", cases, r, ro, None)
    c.sample({"case": cases[0], "python": outcome(r["results"][0]), "python -O": outcome(ro["results"][0])})
    # ---------------- synthetic systems with missing links
    nsys, nper = (8, 50) if quick else (60, 120)
    jobs = []
    for k in range(nsys):
        sysd = synthsys.gen_system(rng, k, sparse=0.45)
        sc = []
        for _ in range(nper):
            a, b = synthsys.gen_pair(rng, sysd)
            m = rng.choice([["int", "3", "1"], ["float", "5", "2"], ["int", "0", "1"], ["int", "-4", "1"]])
            if rng.random() < 0.55: sc.append({"op": "in_unit", "a": {"m": m, "u": a}, "b": b})
            else: sc.append({"op": rng.choice(["eq", "lt", "le", "gt", "ge", "add", "sub"]), "a": {"m": m, "u": a}, "b": {"m": ["int", "2", "1"], "u": b}})
        jobs.append((k, sysd, sc))
    with concurrent.futures.ThreadPoolExecutor(max_workers=6) as ex:
        outs = list(ex.map(lambda j: run_both({"systems": False, "define": j[1]["define"], "decls": j[1]["decls"], "cases": j[2]}), jobs))
    for (k, sysd, sc), (rr, rro) in zip(jobs, outs):
        # a comparison is "disconnected" when both conversions between the two units fail
        convs = [(cs, res) for cs, res in zip(sc, rr["results"]) if cs["op"] == "in_unit"]
        run_block(c, f"syn{k}", rr["export"], [x for x, _ in convs], [y for _, y in convs], Fraction(0),
                  sizes_term=synthsys.sizes_coq(rr["export"], sysd))
        judge({"define": sysd["define"], "decls": sysd["decls"]}, sc, rr, rro, None)
    # ---------------- disconnected comparisons: fresh units of one dimension with no declaration at all
    define = [[f"zzd{i}", [[1, 1]]] for i in range(3)] + [["zzt0", [[2, 1]]]]
    dc = []
    for op in ("eq", "ne", "lt", "le", "gt", "ge", "add", "sub"):
        for (ua, ub) in ((0, 1), (1, 2), (2, 0)):
            for ea in (1, 2, -1):
                dc.append({"op": op, "disconnected": True, "a": {"m": ["int", "3", "1"], "u": [[None, f"zzd{ua}", ea]]},
                           "b": {"m": ["float", "5", "2"], "u": [[[2, 3], f"zzd{ub}", ea]]}})
                dc.append({"op": op, "disconnected": True, "a": {"m": ["int", "3", "1"], "u": [[None, f"zzd{ua}", ea], [None, "zzt0", -1]]},
                           "b": {"m": ["float", "5", "2"], "u": [[None, f"zzd{ub}", ea], [None, "zzt0", -1]]}})
    # zero on both sides is still not comparable without a conversion
    for op in ("eq", "ne", "lt", "le", "gt", "ge"):
        for za, zb in ((["int", "0", "1"], ["int", "0", "1"]), (["float", "0", "1"], ["int", "0", "1"]), (["dec", "0", "1"], ["float", "0", "1"])):
            dc.append({"op": op, "disconnected": True, "a": {"m": za, "u": [[None, "zzd0", 1]]}, "b": {"m": zb, "u": [[None, "zzd1", 1]]}})
            dc.append({"op": op, "disconnected": True, "a": {"m": za, "u": [[[2, 10], "zzd0", 1]]}, "b": {"m": zb, "u": [[[2, -3], "zzd2", 1]]}})
    for (ua, ub) in ((0, 1), (1, 2)):
        dc.append({"op": "in_unit", "a": {"m": ["int", "3", "1"], "u": [[None, f"zzd{ua}", 1]]}, "b": [[None, f"zzd{ub}", 1]]})
    # int, float and Decimal magnitudes on units whose prefix mixes bases ((2^10 a)/(10^3 t), 2^10 * 10^3 a), against a unit with no link
    for mk_ in ("int", "float", "dec"):
        m_ = {"int": ["int", "3", "1"], "float": ["float", "5", "2"], "dec": ["dec", "7", "4"]}[mk_]
        for ua_, ub_ in (([[[2, 10], "zzd0", 1], [[10, 3], "zzt0", -1]], [[None, "zzd1", 1], [None, "zzt0", -1]]),
                         ([[[2, 10], "zzd0", 1], [[10, 3], "zzd0", 1]], [[None, "zzd1", 2]]),
                         ([[None, "zzd1", 1], [None, "zzt0", -1]], [[[2, 10], "zzd0", 1], [[10, -3], "zzt0", -1]])):
            dc.append({"op": "in_unit", "a": {"m": m_, "u": ua_}, "b": ub_})
            for op in ("eq", "ne", "lt", "ge", "add", "sub"):
                dc.append({"op": op, "disconnected": True, "a": {"m": m_, "u": ua_}, "b": {"m": m_, "u": ub_}})
                dc.append({"op": op, "disconnected": True, "a": {"m": m_, "u": ub_}, "b": {"m": m_, "u": ua_}})
    rr, rro = run_both({"systems": False, "define": define, "decls": [], "cases": dc, "bookkeeping": True})
    judge({"define": define, "decls": []}, dc, rr, rro, None)
    # a Level against quantities it cannot be converted to: == is False, != is True, nothing else (in particular no RecursionError)
    lv = {"t": "level", "m": ["int", "20", "1"], "log": "decibel", "prefix": None, "ref": {"m": ["int", "1", "1"], "u": [[None, "watt", 1]]}}
    lcases = []
    for u in ([[None, "meter", 1]], [[None, "second", -1]], [["kilo", "gram", 1]], [[None, "volt", 1]]):
        for m in (["int", "100", "1"], ["float", "5", "2"], ["int", "0", "1"]):
            q = {"t": "qty", "m": m, "u": u}
            for op in ("eq", "ne"):
                lcases.append({"op": op, "l": lv, "r": q}); lcases.append({"op": op, "l": q, "r": lv})
    for cs, rec in zip(lcases, impl("meas_worker.py", {"cases": lcases})["results"]):
        c.count(cs)
        res = rec["res"]
        if "err" in res:
            c.violation(f"exception:level-compare:{res['err']}", f"comparing a level with an inconvertible quantity raised {res['err']}", {"case": cs, "outcome": res})
        elif res.get("b") != (cs["op"] == "ne"):
            c.violation("level-eq-true", f"{cs['op']} between a level and an inconvertible quantity is {res.get('b')}", {"case": cs, "outcome": res})
    # a long definition chain: the recursion depth of the path finder grows with the chain
    n = 120 if quick else 400
    define = [[f"zzc{i}", [[1, 1]]] for i in range(n)]
    decls = [[[[None, f"zzc{i + 1}", 1]], ["int", "2", "1"], [[None, f"zzc{i}", 1]]] for i in range(n - 1)]
    lc = [{"op": "in_unit", "a": {"m": ["int", "1", "1"], "u": [[None, f"zzc{n - 1}", 1]]}, "b": [[None, "zzc0", 1]]},
          {"op": "lt", "a": {"m": ["int", "1", "1"], "u": [[None, "zzc0", 1]]}, "b": {"m": ["int", "1", "1"], "u": [[None, f"zzc{n - 1}", 1]]}}]
    rr, rro = run_both({"systems": False, "define": define, "decls": decls, "cases": lc})
    judge({"chain_length": n}, lc, rr, rro, None)
    c.finish(rule="conversions, + - and the six comparisons on pairs from the C04 space on the shipped table, on fresh synthetic systems with ~45% of the "
                  "definitions left out (disconnected and partially connected pairs), on units with no declaration at all, and along a long "
                  "definition chain; every case runs under python and python -O (outcomes must be identical) and conversions are compared with "
                  "the Coq model including the exception class; distinct by hash",
             extra=dict(stats, traces_validated_against_impl=c.cov["evaluations"]),
             assumptions=["RecursionError on definition chains longer than the interpreter's recursion limit is a runtime resource the fuelled model cannot exhibit; "
                          "a chain of the stated length is probed on the implementation"])

guarded(main, "C07")
