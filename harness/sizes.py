"""Independent oracle for unit sizes: solve every base unit's size from the intercepted
equals()/scale() declarations with exact rational arithmetic.
A size is (coefficient: Fraction, gens: {generator base id: int exponent}); generators are the
base units no declaration defines in terms of others (metre, second, gram, ...)."""
from fractions import Fraction

def frac(n):
    kind = n[0]
    if len(n) != 3:
        raise ValueError(f"non-finite magnitude {n}")
    return Fraction(int(n[1]), int(n[2]))

def pval(p):
    if isinstance(p, dict):
        return None
    b, e = p
    return Fraction(1) if b == 0 else Fraction(b) ** e

class Sizes:
    def __init__(self, exp):
        self.env_ids = [i for i, _, _ in exp["env"]]
        self.names = {i: n for i, _, n in exp["env"]}
        self.size = {}          # base id -> (coef, gens)
        self.generators = []
        self.residuals = []     # (decl index, relative residual as Fraction or 'gens') for redundant declarations
        self.unsolved_decls = []
        self.decls = [d for d in exp["decls"] if d["kind"] == "equate"]
        self._solve()

    def usize(self, u, partial=False):
        """size of a canonical unit dict; None if some base unit is unsized"""
        pv = pval(u["p"])
        if pv is None:
            return None
        coef, gens = pv, {}
        for k, e in u["f"]:
            if k not in self.size:
                return None
            c, g = self.size[k]
            coef *= c ** e
            for a, x in g.items():
                gens[a] = gens.get(a, 0) + x * e
        return coef, {a: x for a, x in gens.items() if x}

    def _unknowns(self, u):
        return [(k, e) for k, e in u["f"] if k not in self.size]

    def _try(self, idx, d):
        (ma, ua), (mb, ub) = d["a"], d["b"]
        unk = {}
        for k, e in ua["f"]:
            if k not in self.size: unk[k] = unk.get(k, 0) + e
        for k, e in ub["f"]:
            if k not in self.size: unk[k] = unk.get(k, 0) - e
        unk = {k: e for k, e in unk.items() if e}
        if len(unk) > 1:
            return False
        fa, fb = frac(ma), frac(mb)
        if not unk:
            sa, sb = self.usize(ua), self.usize(ub)
            if sa is None or sb is None:
                return False
            # ma * size(ua) == mb * size(ub)
            if sa[1] != sb[1]:
                self.residuals.append((idx, "gens"))
            else:
                lhs, rhs = fa * sa[0], fb * sb[0]
                self.residuals.append((idx, abs(lhs / rhs - 1) if rhs else "zero"))
            return True
        (k, e), = unk.items()
        if abs(e) != 1:
            return False
        # ma * Ca * x^ea_k == mb * Cb * x^eb_k   with everything else known
        def known(u):
            pv = pval(u["p"]); coef, gens = pv, {}
            for kk, ee in u["f"]:
                if kk == k: continue
                c, g = self.size[kk]
                coef *= c ** ee
                for a, x in g.items(): gens[a] = gens.get(a, 0) + x * ee
            return coef, gens
        ca, ga = known(ua); cb, gb = known(ub)
        # x^e * fa*ca*G(ga) = fb*cb*G(gb)
        coef = (fb * cb) / (fa * ca)
        gens = dict(gb)
        for a, x in ga.items(): gens[a] = gens.get(a, 0) - x
        if e == -1:
            coef = 1 / coef
            gens = {a: -x for a, x in gens.items()}
        self.size[k] = (coef, {a: x for a, x in gens.items() if x})
        return True

    def _solve(self):
        pending = list(enumerate(self.decls))
        while pending:
            progress = False
            rest = []
            for idx, d in pending:
                if self._try(idx, d):
                    progress = True
                else:
                    rest.append((idx, d))
            pending = rest
            if not progress and pending:
                # promote the earliest-defined unsized base unit of the first pending declaration to a generator
                idx, d = pending[0]
                cands = sorted({k for k, _ in d["a"][1]["f"] + d["b"][1]["f"] if k not in self.size})
                if not cands:
                    self.unsolved_decls.append(idx); pending = pending[1:]; continue
                # prefer the one on the right-hand side (the definition target is usually on the left)
                rhs = [k for k, _ in d["b"][1]["f"] if k not in self.size]
                g = min(rhs) if rhs else min(cands)
                self.size[g] = (Fraction(1), {g: 1})
                self.generators.append(g)
        for k in self.env_ids:
            if k not in self.size:
                self.size[k] = (Fraction(1), {k: 1})
                self.generators.append(k)

    def ratio(self, ua, ub):
        """size(ua)/size(ub) as a Fraction, or None when the two are not commensurable through declarations"""
        sa, sb = self.usize(ua), self.usize(ub)
        if sa is None or sb is None or sa[1] != sb[1]:
            return None
        return sa[0] / sb[0]
