#!/usr/bin/env python3
"""Run /repo's pinned baseline suite and compare with /root/.vp/BASELINE.json's stable_pass list.
Exit 0 iff every stable_pass test passes."""
import json, subprocess, sys, os, tempfile, xml.etree.ElementTree as ET
base = json.load(open('/root/.vp/BASELINE.json'))
REPO = os.environ.get('VERIF_REPO', '/repo')
work = os.path.join(os.path.dirname(os.path.abspath(__file__)), '..', '.work')
os.makedirs(work, exist_ok=True)
junit = os.path.join(work, 'baseline.junit.xml')
cmd = base['cmd'].replace('<file>', junit).replace('cd /repo', 'cd ' + REPO)
env = dict(os.environ); env.pop('MEASURED_VERIF', None)
if REPO != '/repo':
    env['PYTHONPATH'] = os.path.join(REPO, 'src'); env['PATH'] = '/venv/bin:' + env.get('PATH', '')
import shutil
def _clean():
    # hypothesis' example database would replay a once-found failure forever; keep /repo pristine
    for d in ('.hypothesis', '.benchmarks', '.coverage', '.pytest_cache'):
        p = os.path.join(REPO, d)
        if os.path.isdir(p): shutil.rmtree(p, ignore_errors=True)
        elif os.path.exists(p): os.remove(p)
_clean()
subprocess.run(cmd, shell=True, env=env, stdout=subprocess.DEVNULL, stderr=subprocess.DEVNULL)
passed = set()
for tc in ET.parse(junit).getroot().iter('testcase'):
    if not any(c.tag in ('failure', 'error', 'skipped') for c in tc):
        passed.add(f"{tc.get('classname')}::{tc.get('name')}")
missing = [t for t in base['stable_pass'] if t not in passed]
# tests/test_parsing.py::test_each_unit_roundtrips samples 100 of ~45k units at random (hypothesis, no fixed seed) and
# fails whenever the sample contains one of the units whose str() does not parse back (property C13's known findings):
# it is flaky on the pristine tree too.  Re-run a missing test alone, up to 3 times, before calling it missing.
still = []
for t in missing:
    mod, name = t.split('::', 1)
    path = mod.replace('.', '/') + '.py'
    ok = False
    if os.path.exists(os.path.join(REPO, path)) and len(missing) <= 5:
        for _ in range(10 if name == "test_each_unit_roundtrips" else 3):
            _clean()
            r = subprocess.run(['/venv/bin/python', '-m', 'pytest', '-q', '-p', 'no:cacheprovider',
                                f'{path}::{name}'], cwd=REPO, env=env, stdout=subprocess.DEVNULL, stderr=subprocess.DEVNULL)
            if r.returncode == 0:
                ok = True
                break
    if ok:
        print('  flaky, passed on re-run:', t)
    else:
        still.append(t)
missing = still
print(f"stable_pass={len(base['stable_pass'])} passed_now={len(passed)} missing={len(missing)}")
for m in missing[:40]:
    print("  MISSING", m)
os.remove(junit)
_clean()
sys.exit(1 if missing else 0)
