#!/usr/bin/env python3
"""Run /repo's pinned baseline suite and compare with /root/.vp/BASELINE.json's stable_pass list.
Exit 0 iff every stable_pass test passes."""
import json, subprocess, sys, os, tempfile, xml.etree.ElementTree as ET
base = json.load(open('/root/.vp/BASELINE.json'))
work = os.path.join(os.path.dirname(os.path.abspath(__file__)), '..', '.work')
os.makedirs(work, exist_ok=True)
junit = os.path.join(work, 'baseline.junit.xml')
cmd = base['cmd'].replace('<file>', junit)
env = dict(os.environ); env.pop('MEASURED_VERIF', None)
import shutil
def _clean():
    # hypothesis' example database would replay a once-found failure forever; keep /repo pristine
    for d in ('.hypothesis', '.benchmarks', '.coverage', '.pytest_cache'):
        p = os.path.join('/repo', d)
        if os.path.isdir(p): shutil.rmtree(p, ignore_errors=True)
        elif os.path.exists(p): os.remove(p)
_clean()
subprocess.run(cmd, shell=True, env=env, stdout=subprocess.DEVNULL, stderr=subprocess.DEVNULL)
passed = set()
for tc in ET.parse(junit).getroot().iter('testcase'):
    if not any(c.tag in ('failure', 'error', 'skipped') for c in tc):
        passed.add(f"{tc.get('classname')}::{tc.get('name')}")
missing = [t for t in base['stable_pass'] if t not in passed]
print(f"stable_pass={len(base['stable_pass'])} passed_now={len(passed)} missing={len(missing)}")
for m in missing[:40]:
    print("  MISSING", m)
os.remove(junit)
_clean()
sys.exit(1 if missing else 0)
