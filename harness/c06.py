"""C06 — arithmetic and comparison do not depend on the units operands are written in."""
import sys, os
sys.path.insert(0, os.path.dirname(os.path.abspath(__file__)))
from common import *
import qgen, qdriver

from qdriver import FAMILIES
MAGS = [["int", "3", "1"], ["int", "-2", "1"], ["int", "0", "1"], ["int", "12", "1"], ["float", "5", "2"], ["float", "-7", "4"],
        ["float", "1", "8"], ["float", "1000", "1"], ["dec", "5", "4"], ["dec", "-3", "1"], ["dec", "7", "2"]]

def main():
    c = Check("C06")
    c.static_theorems()
    rng = c.rng
    O = qdriver.Oracle()
    n = 500 if c.tier == "quick" else 8000
    cases = []
    for _ in range(n):
        fam = rng.choice(FAMILIES); fam2 = rng.choice(FAMILIES)
        a = {"t": "qty", "m": rng.choice(MAGS), "u": rng.choice(fam)}
        op = rng.choice(["add", "sub", "eq", "lt", "mul", "div", "pow", "le", "gt"])
        if op in ("mul", "div"):
            b = {"t": "qty", "m": rng.choice(MAGS), "u": rng.choice(fam2)}
        else:
            b = {"t": "qty", "m": rng.choice(MAGS), "u": rng.choice(fam)}
        if op == "pow":
            cases.append({"op": "pow", "l": a, "r": rng.choice([-3, -2, -1, 0, 1, 2, 3])})
        else:
            cases.append({"op": op, "l": a, "r": b})
            # the same operation with each operand re-expressed in a sibling unit (value kept by construction is not
            # needed: the oracle compares SI values of results with the operation on SI values)
    # very small amounts written in large units (a dalton in kilograms, an electron-volt in joules): a factor of two apart is a factor of two apart
    for u, (m1, m2) in (([[None, "kilogram", 1]], (1.66e-27, 3.32e-27)), ([[None, "joule", 1]], (1.6e-19, 4.8e-19)), ([[None, "meter", 1]], (1e-15, 3e-15)),
                        ([[None, "second", 1]], (1e-13, 2.5e-13)), ([[None, "meter", 2]], (1e-28, 2e-28)), ([["kilo", "gram", 1]], (1.66e-27, 3.32e-27))):
        fl_ = lambda x: ["float", str(float(x).as_integer_ratio()[0]), str(float(x).as_integer_ratio()[1])]
        for op in ("eq", "lt", "gt", "le"):
            cases.append({"op": op, "l": {"t": "qty", "m": fl_(m1), "u": u}, "r": {"t": "qty", "m": fl_(m2), "u": u}})
            cases.append({"op": op, "l": {"t": "qty", "m": fl_(m2), "u": u}, "r": {"t": "qty", "m": fl_(m1), "u": u}})
    recs = qdriver.run(cases)
    nties = 0
    for case, rec in zip(cases, recs):
        op, res = case["op"], rec["res"]
        l, r = rec.get("l"), rec.get("r")
        c.count(case, nontrivial=(op == "pow" or l["u"]["f"] != r["u"]["f"] or l["u"]["p"] != r["u"]["p"]))
        vl = O.si(l); vr = O.si(r) if r else None
        repl = {"case": case, "result": res}
        if vl is None or (r and vr is None): continue
        if res.get("t") == "qty":
            vres = O.si(res)
            if vres is None: continue
            want = None
            if op == "add" and vl[1] == vr[1]: want = (vl[0] + vr[0], vl[1])
            if op == "sub" and vl[1] == vr[1]: want = (vl[0] - vr[0], vl[1])
            if op == "mul": want = (vl[0] * vr[0], {k: vl[1].get(k, 0) + vr[1].get(k, 0) for k in set(vl[1]) | set(vr[1]) if vl[1].get(k, 0) + vr[1].get(k, 0)})
            if op == "div" and vr[0] != 0: want = (vl[0] / vr[0], {k: vl[1].get(k, 0) - vr[1].get(k, 0) for k in set(vl[1]) | set(vr[1]) if vl[1].get(k, 0) - vr[1].get(k, 0)})
            if op == "pow" and not (vl[0] == 0 and case["r"] <= 0): want = (vl[0] ** case["r"], {k: e * case["r"] for k, e in vl[1].items() if e * case["r"]})
            if want is not None:
                tol = Fraction(1, 10**9) if res["m"][0] != "int" else 0
                scale = max(abs(vl[0]), abs(vr[0]) if vr else 0, abs(want[0]))
                if vres[1] != want[1] or abs(vres[0] - want[0]) > tol * scale:
                    c.violation(f"sivalue:{op}", f"SI value of {op} result is {float(vres[0])}, the operation on the SI values gives {float(want[0])}", repl)
        elif res.get("t") == "bool" and vl[1] == vr[1]:
            x, y = vl[0], vr[0]
            if not qdriver.rel_close(x, y, Fraction(1, 10**7)) or x == y:
                want = {"eq": x == y, "lt": x < y, "le": x <= y, "gt": x > y}[op]
                if x == y and res["b"] != want and not (l["m"][0] == "int" and r["m"][0] == "int" and l["u"]["p"] == r["u"]["p"] and l["u"]["f"] == r["u"]["f"]):
                    nties += 1      # exact ties reached through float conversions may round either way
                elif res["b"] != want:
                    c.violation(f"truth:{op}", f"{op} is {res['b']} but the SI values are {float(x)} and {float(y)}", repl)
            else:
                nties += 1
        elif "err" in res and op in ("add", "sub", "eq", "lt", "le", "gt") and vl[1] == vr[1]:
            c.violation(f"raises:{op}:{res['err']}", f"{op} of convertible quantities raised {res['err']}", repl)
    # operands written with prefixes of one or two bases (SI and IEC mixed): two-step sequences and powers of compound
    # units keep their physical value (relations evaluated on the implementation; mixed bases at 1e-9)
    prefixes = sorted(n for n, p in O.exp["prefix_by_name"].items() if not isinstance(p, dict))
    REL_UNITS = [[[None, "meter", 1]], [[None, "second", 1]], [[None, "gram", 1]], [[None, "bit", 1]], [[None, "newton", 1]], [[None, "meter", 2]]]
    rel = []
    for _ in range(160 if c.tier == "quick" else 2500):
        rel.append({"p": rng.choice(prefixes), "q": rng.choice(prefixes), "u": rng.choice(REL_UNITS), "m": rng.choice(MAGS[:8]), "n": rng.choice([-3, -2, -1, 1, 2, 3])})
    VALUE_RELS = ("compound-power", "ratio-then-multiply", "ratio-then-divide", "full-cancel-quantity", "full-cancel-keeps-prefix", "prefixed-quantity", "unprefixed", "divide-by-prefixed")
    for case, rec in zip(rel, impl("prefixsem_worker.py", {"cases": rel})["results"]):
        c.count(case, nontrivial=True)
        for f in rec.get("fails", []):
            if f in VALUE_RELS:
                c.violation(f"prefix-rewrite:{f}", f"the value changes when the operands are written with prefixes {case['p']}, {case['q']}: relation {f} fails (unit {case['u']}, magnitude {case['m']}, n={case['n']})", {"case": case})
    # an operand replaced by the *equal* quantity written with another prefix (positive exponents): both sides are reduced to the same
    # unprefixed unit by exact multiplications (integer factors, small dyadic magnitudes), so == must be True and < and > False.
    # (declared ratios such as minute = 60 s are not used here: the reverse ratio 1/60 is not exact, a rounding tie)
    REEXPR = [([["kibi", "bit", 1]], [[None, "bit", 1]], 1024), ([[None, "byte", 1]], [[None, "bit", 1]], 8), (["kilo", "meter", 1], None, 0)]
    REEXPR = [(a, b, r) for a, b, r in REEXPR if b] + [
        ([["kilo", "meter", 1]], [[None, "meter", 1]], 1000), ([["mebi", "second", 1]], [[None, "second", 1]], 1048576),
        ([["kilo", "gram", 1]], [[None, "gram", 1]], 1000), ([["kibi", "meter", 1]], [[None, "meter", 1]], 1024),
        ([["kibi", "byte", 1]], [[None, "bit", 1]], 8192), ([["mebi", "bit", 1]], [["kibi", "bit", 1]], 1024),
        ([["kilo", "joule", 1]], [[None, "joule", 1]], 1000), ([["kilo", "meter", 2]], [[None, "meter", 2]], 1000000),
        ([["mega", "watt", 1]], [["kilo", "watt", 1]], 1000), ([["gibi", "bit", 1]], [["mebi", "bit", 1]], 1024)]
    SMALL = [["int", "3", "1"], ["int", "-2", "1"], ["int", "12", "1"], ["float", "5", "2"], ["float", "-7", "4"], ["float", "3", "1"],
             ["dec", "5", "4"], ["dec", "-3", "1"], ["dec", "7", "2"], ["dec", "3", "1"]]
    def times(m, r):
        f = Fraction(int(m[1]), int(m[2])) * r
        return [m[0], str(f.numerator), str(f.denominator)]
    recases, remeta = [], []
    for ua, ub, r in REEXPR:
        for m in SMALL:
            a = {"t": "qty", "m": m, "u": ua}; a2 = {"t": "qty", "m": times(m, r), "u": ub}
            for op in ("eq", "lt", "gt"):
                recases.append({"op": op, "l": a, "r": a2}); remeta.append((op, "fwd", ua, ub, m))
                recases.append({"op": op, "l": a2, "r": a}); remeta.append((op, "rev", ua, ub, m))
    for case, meta, rec in zip(recases, remeta, qdriver.run(recases)):
        c.count(case, nontrivial=True)
        res = rec["res"]
        want = (meta[0] == "eq")
        if res.get("t") != "bool" or res["b"] != want:
            c.violation(f"reexpressed:{meta[0]}", f"{case['l']} and {case['r']} are the same quantity, but {meta[0]} gives {res}", {"case": case, "result": res})
    convtbl = O.conv_pairs(recs)
    # comparisons at (near-)ties are excluded from the exact model comparison
    keep = []
    for i, (case, rec) in enumerate(zip(cases, recs)):
        if rec["res"].get("t") == "bool":
            vl, vr = O.si(rec["l"]), O.si(rec["r"])
            if vl and vr and vl[0] != vr[0] and qdriver.rel_close(vl[0], vr[0], Fraction(1, 10**7)): continue
            if vl and vr and vl[0] == vr[0] and (rec["l"]["u"]["f"] != rec["r"]["u"]["f"]): continue
        keep.append(i)
    bad = qgen.run_shards(c, "C06", [cases[i] for i in keep], [recs[i] for i in keep], convtbl)
    for i in bad[:5]:
        c.cov.setdefault("model_impl_mismatches", []).append({"case": cases[keep[i]], "impl": recs[keep[i]]["res"]})
    c.sample({"case": cases[0], "result": recs[0]["res"]}); c.sample({"case": cases[1], "result": recs[1]["res"]})
    # equivalences an application declares ON prefixed units ((kilo a) = 8 b; (milli c) = 2 (kilo d); a named unit that is prefixed underneath,
    # byte = 1 octet): the value of every operation follows the declared sizes, whichever side carries which prefix
    pdefine = [["vfqa", [[1, 1]]], ["vfqb", [[1, 1]]], ["vfqc", [[3, 1]]], ["vfqd", [[3, 1]]]]
    # (each declared twice: a first, sloppy figure, then the one in force -- the later declaration replaces the earlier in both directions)
    pdecls = [[[["kilo", "vfqa", 1]], ["int", "7", "1"], [[None, "vfqb", 1]]], [[["milli", "vfqc", 1]], ["float", "5", "2"], [["kilo", "vfqd", 1]]],
              [[["kilo", "vfqa", 1]], ["int", "8", "1"], [[None, "vfqb", 1]]], [[["milli", "vfqc", 1]], ["int", "2", "1"], [["kilo", "vfqd", 1]]]]
    psize = {"vfqa": Fraction(8, 1000), "vfqb": Fraction(1), "vfqc": Fraction(2000 * 1000), "vfqd": Fraction(1)}
    pval = {None: Fraction(1), "kilo": Fraction(1000), "milli": Fraction(1, 1000), "kibi": Fraction(1024)}
    pc = []
    for ua, ub in (("vfqa", "vfqb"), ("vfqb", "vfqa"), ("vfqc", "vfqd"), ("vfqd", "vfqc"), ("vfqa", "vfqa")):
        for pa in (None, "kilo", "milli"):
            for pb in (None, "kilo", "kibi"):
                for x, y in ((3, 5), (1, 125), (8, 1), (0, 2), (-4, 7)):
                    a_ = {"m": ["int", str(x), "1"], "u": [[pa, ua, 1]]}; b_ = {"m": [rng.choice(["int", "float"]), str(y), "1"], "u": [[pb, ub, 1]]}
                    for op in ("add", "sub", "eq", "lt"):
                        pc.append({"op": op, "a": a_, "b": b_})
                    pc.append({"op": "in_unit", "a": a_, "b": b_["u"]})
    if c.tier == "quick": pc = rng.sample(pc, 400)
    pr = impl("convsys_worker.py", {"systems": True, "define": pdefine, "decls": pdecls, "cases": pc})["results"]
    for cs, res in zip(pc, pr):
        c.count(["declared-on-prefixed", cs], nontrivial=True)
        (pa, ua, _), = cs["a"]["u"]
        (pb, ub, _), = cs["b"]["u"] if cs["op"] != "in_unit" else cs["b"]
        va = Fraction(int(cs["a"]["m"][1]), int(cs["a"]["m"][2])) * pval[pa] * psize[ua]
        repl = {"declared": ["(kilo vfqa).equals(7 vfqb)", "(milli vfqc).equals(2.5 kilo vfqd)", "(kilo vfqa).equals(8 vfqb)", "(milli vfqc).equals(2 kilo vfqd)"], "case": cs, "implementation": {k: res.get(k) for k in ("m", "bool", "err")}}
        if "err" in res or "setup_err" in res:
            c.violation(f"raises:{cs['op']}:{res.get('err') or res.get('setup_err')}", f"{cs['op']} of convertible quantities raised {res.get('err') or res.get('setup_err')} (equivalence declared on a prefixed unit)", repl); continue
        if cs["op"] == "in_unit":
            want = va / (pval[pb] * psize[ub]); got = Fraction(int(res["m"][1]), int(res["m"][2]))
            if abs(got - want) > Fraction(1, 10**9) * max(abs(want), Fraction(1, 10**12)): c.violation("sivalue:in_unit", f"converted to {float(got)}, the declared sizes give {float(want)}", repl)
            continue
        vb = Fraction(int(cs["b"]["m"][1]), int(cs["b"]["m"][2])) * pval[pb] * psize[ub]
        if cs["op"] in ("add", "sub"):
            want = (va + vb if cs["op"] == "add" else va - vb) / (pval[pa] * psize[ua]); got = Fraction(int(res["m"][1]), int(res["m"][2]))
            if abs(got - want) > Fraction(1, 10**9) * max(abs(want), abs(va / (pval[pa] * psize[ua])), Fraction(1, 10**12)): c.violation(f"sivalue:{cs['op']}", f"{cs['op']} gives {float(got)}, the declared sizes give {float(want)}", repl)
        elif va != vb and abs(va - vb) > Fraction(1, 10**6) * max(abs(va), abs(vb)):
            want = {"eq": False, "lt": va < vb}[cs["op"]]
            if res.get("bool") != want: c.violation(f"truth:{cs['op']}", f"{cs['op']} is {res.get('bool')} but the declared sizes give {float(va)} and {float(vb)}", repl)
    c.finish(rule="pairs of quantities in different convertible units / prefixes (mixed SI/IEC included) of one dimension for + - == < <= >, "
                  "of any dimensions for * / **, int/float/Decimal magnitudes; the SI value of every result (exact rational oracle solved from "
                  "the declarations) is compared with the operation on the operands' SI values at 1e-9; comparisons within 1e-7 of a tie are "
                  "excluded; non-trivial = operands in different units; distinct by hash",
             extra={"near_ties_excluded": nties, "traces_validated_against_impl": len(cases)},
             assumptions=["+ - == < are conditional on the conversion being sound (C04); the unit families used are ones the planner converts correctly"])

guarded(main, "C06")
