#!/bin/sh
# run every quick check under several seeds (different checks in parallel, one seed at a time); prints one line per (seed, check)
cd "$(dirname "$0")/.."
TIER=${TIER:-quick}
for s in "$@"; do
  for i in 01 02 03 04 05 06 07 08 09 10 11 12 13 14 15 16 17 18 19 20; do echo C$i; done | \
    xargs -P4 -I{} sh -c "VERIF_SEED=$s VERIF_TIER=$TIER ./check {} --tier $TIER 2>&1 | grep -v conda | grep -E 'VIOLATION|^C[0-9]+:|Traceback|Error' | tr '\n' ' ' | sed 's/^/seed=$s {} rc: /'; echo"
done
