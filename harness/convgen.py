"""Generator for the C04 space: equal-dimension unit pairs built from registered offset-free named
units, registered prefixes, |exponent| <= 3, up to 3 factors a side."""
from common import *

def dimkey(d):
    return json.dumps(sorted(d))

class Space:
    def __init__(self, exp, sizes):
        self.exp, self.S = exp, sizes
        offset_units = set()
        for a, b, _ in exp["offsets"]:
            for k, _e in a["f"] + b["f"]:
                offset_units.add(k)
        self.units = {}       # name -> canonical unit (first name of each unit object only)
        by_oid = {u["o"]: u for u in exp["units"]}
        seen = set()
        for n, o in sorted(exp["unit_by_name"].items()):
            u = by_oid.get(o)
            if u is None or isinstance(u["p"], dict):
                continue
            if any(k in offset_units for k, _ in u["f"]):
                continue
            if n in ("one",):
                continue
            self.units[n] = u
        self.by_dim = {}
        for n, u in self.units.items():
            self.by_dim.setdefault(dimkey(u["d"]), []).append(n)
        self.names = sorted(self.units)
        self.prefixes = sorted(n for n, p in exp["prefix_by_name"].items() if not isinstance(p, dict))

    def rand_prefix(self, rng):
        if rng.random() < 0.6:
            return None
        return rng.choice(self.prefixes)

    def rand_factor(self, rng, name=None, e=None):
        return [self.rand_prefix(rng), name or rng.choice(self.names), e if e is not None else rng.choice([1, 1, 1, 2, -1, -1, -2, 3, -3])]

    def pair(self, rng):
        """(start spec, end spec) of equal dimension"""
        for _ in range(50):
            n = rng.choice([1, 1, 2, 2, 3])
            start = [self.rand_factor(rng) for _ in range(n)]
            r = rng.random()
            if r < 0.65:
                # factor-wise replacement by a unit of the same dimension
                end = []
                for p, name, e in start:
                    alts = self.by_dim[dimkey(self.units[name]["d"])]
                    end.append([self.rand_prefix(rng), rng.choice(alts), e])
                if rng.random() < 0.3:
                    rng.shuffle(end)
            else:
                # a named unit (or a power of one) of the total dimension, in either direction
                d = {}
                for p, name, e in start:
                    for k, x in self.units[name]["d"]:
                        d[k] = d.get(k, 0) + x * e
                tot = sorted([k, x] for k, x in d.items() if x)
                cands = []
                for pw in (1, 2, 3, -1, -2):
                    if all(x % pw == 0 for _, x in tot):
                        key = dimkey([[k, x // pw] for k, x in tot])
                        for nm in self.by_dim.get(key, []):
                            cands.append([[self.rand_prefix(rng), nm, pw]])
                if not cands:
                    continue
                end = rng.choice(cands)
                if rng.random() < 0.5:
                    start, end = end, start
            return start, end
        return [[None, "meter", 1]], [[None, "foot", 1]]

    def alt(self, rng, start):
        """another spec of the same dimension, factor by factor"""
        end = []
        for p, name, e in start:
            alts = self.by_dim[dimkey(self.units[name]["d"])]
            end.append([self.rand_prefix(rng), rng.choice(alts), e])
        if rng.random() < 0.3:
            rng.shuffle(end)
        return end

    def spec_unit(self, spec):
        """canonical (prefix value as Fraction, factors, dims) of a spec, computed independently of the implementation"""
        from sizes import pval
        coef = Fraction(1); f = {}; d = {}
        for p, name, e in spec:
            u = self.units[name]
            pv = pval(u["p"]) * (pval(self.exp["prefix_by_name"][p]) if p else 1)
            coef *= pv ** e
            for k, x in u["f"]:
                f[k] = f.get(k, 0) + x * e
            for k, x in u["d"]:
                d[k] = d.get(k, 0) + x * e
        return coef, {k: x for k, x in f.items() if x}, {k: x for k, x in d.items() if x}

    def size_ratio(self, sa, sb):
        """size(sa)/size(sb) from the oracle, or None if incommensurable by declarations"""
        ca, fa, _ = self.spec_unit(sa); cb, fb, _ = self.spec_unit(sb)
        ua = {"p": [0, 0], "f": sorted(fa.items())}; ub = {"p": [0, 0], "f": sorted(fb.items())}
        r = self.S.ratio(ua, ub)
        return None if r is None else r * ca / cb

    def degree(self, spec):
        return sum(abs(e) for _, _, e in spec)

def rand_mag(rng, kinds=("int", "float", "dec")):
    k = rng.choice(kinds)
    if k == "int":
        v = rng.choice([0, 1, -1, 2, 5, 12, -7, 100, 12345, rng.randint(-10**6, 10**6)])
        return ["int", str(v), "1"]
    if k == "float":
        v = rng.choice([0.0, 1.0, -1.0, 0.5, 2.5, 1e-3, -273.15, 6.02e23, rng.uniform(-1e4, 1e4), rng.lognormvariate(0, 5)])
        n, d = float(v).as_integer_ratio()
        return ["float", str(n), str(d)]
    v = Fraction(rng.randint(-10**6, 10**6), 10 ** rng.randint(0, 4))
    return ["dec", str(v.numerator), str(v.denominator)]
