#!/bin/sh
# re-run every stored seeded change (seeded/<Cnn>-<k>) against the check of its own property, in isolation; one line per seed
cd "$(dirname "$0")/.."
ls seeded | grep -E '^C[0-9]+-[0-9]+$' | sed 's/-/ /' | xargs -P${JOBS:-4} -L1 sh -c '/venv/bin/python harness/seedtest.py $0 $1 --src /nonexistent --checks $0 --skip-baseline 2>&1 | grep -v conda | tail -1 | cut -c1-260'
